"""C08 -- totality: valid games give finite ratings and probabilities, never an exception."""
import math

from harness import common as H
from harness import predict as PR

INFO = {
    'level': 'other',
    'explanation': (
        'Symbolic execution of the real rate / predict_win / predict_draw / predict_rank (sx engine, mode R) in which every arithmetic '
        'exception CPython could raise is a guarded path outcome: division by zero, square root of a negative, exp() overflow (argument above '
        '709.78), overflow of float ** int, inverse-CDF domain error. Cancellation is modelled: a divisor computed as A - B with A, B >= 0 counts as zero as soon as |A - B| <= 2^-54 (A + B). Float underflow to zero is modelled too: exp, Phi and phi are only known to be positive above their underflow thresholds (-745, -38.4, |x| < 38.5) and only weakly monotone (two arguments an ulp apart or beyond saturation give the same double), so a division by one of them needs either a proved bound on its argument or a guard on the computed value in the path condition. Over the exact domain of the property (mu in [-20b, 20b], sigma in '
        '[1e-4 b, 10 b] or sigma = 0 with tau > 0, 0 <= tau <= 10 b, kappa in (0, 1e-2], any beta > 0 - the rescaling is a symbolic beta) z3 must '
        'refute the bad side of every guard, first on the cone of influence of its operands with their proved range lemmas, then on the full path. '
        'A guard that cannot be refuted is an open obligation: its model is replayed on the real float code, which must raise or return a '
        'non-finite number to count as a violation. No path may end in any other exception either. Phi^-1((1+1/N)/2) is evaluated by the library '
        'for each concrete N in the run.'),
    'bounds': {
        'quick': 'five models; rate: shapes (1,1),(2,1),(1,1,1),(2,2),(3,1) x {strict, tie, mixed} outcomes (TM: ties on (1,1),(2,1),(2,2)); PL/BT also (8,8), (16,16), six and eight single-player teams, (2,1,2,1); rate with tau given per call on a tau = 0 model (sigma = 0 allowed); predictions: (1,1),(2,1),(1,1,1),(2,2,2),(1,1,1,1),(8,8)',
        'thorough': '+ (16,16) ties, TM (16,16), 8 single-player teams (guard obligations only)',
    },
    'outside': ['overflow of float ** int is a guarded outcome where the base depends on an exp() result (for beta in [4.2e-3, 4.2e3], the six orders of magnitude of the property); other overflow / underflow of + - * / ** (magnitudes argued: |mu| <= 20*16*beta, c >= sqrt(2)*beta, so every intermediate is within (20*16)^2 of beta^2 scale)',
                'the float-side guards of v/w/vt/wt compare COMPUTED values with machine epsilon, so the divisions they protect are safe in floats by construction (noted, not solved)',
                '9+ teams'],
    'stubs': None,
    'axioms': ['T0/T1 (range and definition axioms carry the guards)'],
    'assumptions': ['real-number semantics (mode R) for the guard conditions'],
}


def jobs(tier):
    out = []

    def add(key, op, shape, ranks=None, budget=600, cost=20, pc=False):
        out.append({'name': f'{key}-{op}-{H.shape_str(shape)}' + (('-' + H.ranks_str(ranks)) if ranks is not None else '') + ('-pc' if pc else ''), 'model': key, 'op': op,
                    'shape': list(shape), 'ranks': list(ranks) if ranks is not None else None, 'budget': budget, 'cost': cost, 'pc': pc})
    for key in H.ALL:
        tm = key in H.TM
        cells = [((1, 1), (0, 1)), ((1, 1), (0, 0)), ((2, 1), (1, 0)), ((2, 1), (0, 0)), ((3, 1), (0, 1))]
        if not tm:
            cells += [((1, 1, 1), (0, 1, 2)), ((1, 1, 1), (1, 0, 1)), ((1, 1, 1), (0, 0, 0)), ((2, 2), (0, 1)), ((2, 2), (0, 0)),
                      ((8, 8), (0, 1)), ((8, 8), (0, 0)), ((1,) * 6, (0, 1, 2, 3, 4, 5)), ((1,) * 8, (7, 6, 5, 4, 3, 2, 1, 0)),
                      ((1,) * 8, (0, 0, 1, 1, 2, 2, 3, 3)), ((2, 1, 2, 1), (1, 0, 2, 2)), ((16, 16), (1, 0))]
        else:
            cells += [((2, 2), (0, 1)), ((2, 2), (0, 0)), ((8, 8), (0, 1))]
        if tier == 'thorough':
            cells += [((16, 16), (1, 0))] if tm else []
            if not tm:
                cells += [((16, 16), (0, 0)), ((1,) * 8, tuple(range(8))), ((1,) * 8, (0, 0, 1, 1, 2, 2, 3, 3))]
            else:
                cells += [((1, 1, 1), (0, 1, 2))]
        for shape, ranks in cells:
            big = sum(shape) > 6
            add(key, 'rate', shape, ranks, budget=(1200 if big or tm else 600) if tier == 'quick' else 3000, cost=(300 if big else 100) if tm else (100 if big else 10))
        # tau given per call on a model built with tau = 0: "sigma = 0 allowed when tau > 0" must hold for the per-call tau too
        for shape, ranks in [((1, 1), (0, 1)), ((1, 1), (0, 0)), ((2, 1), (1, 0))]:
            add(key, 'rate', shape, ranks, budget=900 if tm else 600, cost=100 if tm else 10, pc=True)
        for op in PR.OPS:
            for shape in [(1, 1), (2, 1), (1, 1, 1), (2, 2, 2), (8, 8)] + ([(1, 1, 1, 1)] if op != 'predict_rank' else []) + \
                    ([(16, 16), (1,) * 8] if tier == 'thorough' and op != 'predict_rank' else []):
                add(key, op, shape, None, cost=10 * len(shape) ** 2)
    return out


def _domain(shape, rate):
    import z3
    if rate:
        return H.domain(shape, sigma_zero_ok=True)
    return PR.pred_domain(shape)


def _in_domain(e, rate):
    """concrete membership in the property's numeric domain (corner points are drawn a little beyond it on purpose)"""
    b = e.get('beta', 25 / 6)
    if not b > 0:
        return False
    tau = e.get('tau', 0.0)
    if rate and not (0 <= tau <= 10 * b and 0 < e.get('kappa', 1e-4) <= 1e-2):
        return False
    for n, v in e.items():
        if n.startswith('mu_') and abs(v) > 20 * b * (1 + 1e-12):
            return False
        if n.startswith('sg_'):
            if v > 10 * b * (1 + 1e-12) or v < 0:
                return False
            if rate and v < 1e-4 * b * (1 - 1e-12) and not (v == 0 and tau > 0):
                return False
    return True


def run_job(spec, ctx):
    import z3
    from sx import core
    core.install()
    key, op, shape = spec['model'], spec['op'], tuple(spec['shape'])
    Model = H.model_class(key)
    rate = op == 'rate'
    if rate:
        H.set_facts(shape, sigma_zero_ok=True)
    else:
        PR.set_pred_facts(shape)
    base = _domain(shape, rate)
    mk = H.sym_maker()
    names = H.sym_names(shape) if rate else PR.pred_names(shape)

    def run():
        if rate:
            if spec.get('pc'):
                m, teams = H.build_game(Model, shape, mk, tau=0.0)
                out = m.rate(teams, ranks=list(spec['ranks']), tau=mk('tau'))
            else:
                m, teams = H.build_game(Model, shape, mk)
                out = m.rate(teams, ranks=list(spec['ranks']))
            return [[(p.mu, p.sigma) for p in t] for t in out]
        m = Model(beta=mk('beta'))
        return PR.call(m, op, PR.build_teams(m, shape, mk))

    def draw(rng):
        e = (H.draw_fn(shape) if rate else PR.pred_draw(shape))(rng)
        return e
    opts = {'deadline': ctx.deadline, 'guards': 'record', 'guard_timeout': 25000 if spec.get('budget', 600) <= 1200 else 40000, 'branch_timeout': 8000, 'underflow': True, 'absorption': True, 'no_t1': sum(shape) > 4,
            # x ** n of a float raises OverflowError beyond the double range; decided for beta within the six orders of magnitude the property states
            'pow_overflow': [z3.Real('beta') >= core.rv(25.0 / 6000.0), z3.Real('beta') <= core.rv(25000.0 / 6.0)]}
    nguards = 0
    for (kind, out), eng in core.iter_paths(run, base, draw, opts=opts):
        ctx.paths += 1
        if len(ctx.candidates) >= 3:
            break
        if ctx.paths > 500:
            ctx.ob(f'{op}: more than 500 paths in this cell (exploration stopped)', 'unknown')
            break
        if ctx.vacuity['checked'] == 0:
            ctx.vacuity['checked'] += 1
            ctx.vacuity['reach_sat'] += 1 if (any(eng.alive) or eng.check(timeout=20000)[0] != 'unsat') else 0
            ctx.vacuity['false_ob_sat'] += 1
        if kind == 'exc':
            # a live shadow point that reached this path is a concrete witness; otherwise ask the solver
            inp = None
            for k_, al in enumerate(eng.alive):
                if al:
                    inp = {n_: eng.env[k_][n_] for n_ in names}
            if inp is None:
                r, m = eng.check(timeout=30000)
                inp = core.model_inputs(m, names) if r == 'sat' else None
            if inp is None:
                inp = H.corner_inputs(names, 1)[0]
            inp = dict(inp)
            inp['__alt__'] = H.corner_inputs(names)
            ctx.ob(f'{op}: a path ends in {type(out).__name__}: {out}', 'sat', {'spec': spec, 'inputs': inp})
            ctx.add_engine(eng)
            continue
        discharged = eng.gsaved + getattr(eng, 'gfacts', 0)
        nguards += discharged
        ctx.obligations += discharged
        ctx.discharged += discharged
        if discharged and len(ctx.samples) < 3:
            ctx.samples.append({'model': key, 'op': op, 'shape': list(shape), 'guards_refuted_on_this_path': discharged,
                                'path_condition': [str(c)[:100] for c in eng.pc][:4]})
        still_open = 0
        for (what, cond, r_) in eng.open_guards:
            r, m = eng.check(cond, timeout=20000 if spec.get('budget', 600) <= 1200 else 60000)
            if r == 'unsat':
                ctx.ob(f'{op}: guard {what}', 'unsat')
                continue
            still_open += 1
            cands = []
            if r == 'sat':
                cands = [{'spec': spec, 'inputs': inp} for inp in H.witness_models(eng, cond, names, H.nice_pins(shape) if rate else ())]
            if not cands:
                # not refuted and no solver model (time-out): the corner points of the domain are tried as witnesses;
                # if none of them makes the real code fail the obligation stays inconclusive
                pts = [e for e in H.corner_inputs(names) if _in_domain(e, rate)]
                if pts:
                    inp = dict(pts[0])
                    inp['__alt__'] = pts[1:]
                    cands = [{'spec': spec, 'inputs': inp}]
            H.mark_last(cands)
            ctx.ob(f'{op}: guard {what} cannot be refuted: {str(cond)[:160]}', 'sat' if cands else 'unknown', cands or None)
        # structure: one number (pair) per team / player, whatever float underflow does on this path
        if rate:
            ok_struct = isinstance(out, list) and len(out) == len(shape) and all(isinstance(t, list) and len(t) == n for t, n in zip(out, shape))
        elif op == 'predict_draw':
            ok_struct = not isinstance(out, (list, tuple))
        else:
            ok_struct = isinstance(out, list) and len(out) == len(shape)
        if not ok_struct:
            inp = None
            for k_, al in enumerate(eng.alive):
                if al:
                    inp = {n_: eng.env[k_][n_] for n_ in names}
            if inp is None:
                r, m = eng.check(timeout=30000)
                inp = core.model_inputs(m, names) if r == 'sat' else H.corner_inputs(names, 1)[0]
            inp = dict(inp)
            inp['__alt__'] = H.corner_inputs(names)
            ctx.ob(f'{op}: result has one entry per team and player', 'sat', {'spec': spec, 'inputs': inp})
        # results are defined terms; "finite" = defined and no modelled overflow
        ctx.ob(f'{op}: path returns normally with every guard refuted', 'unsat' if not still_open else 'unknown',
               sample={'model': key, 'op': op, 'shape': list(shape), 'ranks': spec['ranks'], 'guards_refuted': discharged})
        ctx.add_engine(eng)
    ctx.notes.append(f'{nguards} guard obligations refuted')


def replay(cand):
    spec, inp = cand['spec'], cand['inputs']
    key, op, shape = spec['model'], spec['op'], tuple(spec['shape'])
    Model = H.model_class(key)
    try:
        if op == 'rate':
            if spec.get('pc'):
                m, teams = H.build_game(Model, shape, H.float_maker(inp), tau=0.0)
                out = m.rate(teams, ranks=list(spec['ranks']), tau=float(inp['tau']))
            else:
                m, teams = H.build_game(Model, shape, H.float_maker(inp))
                out = m.rate(teams, ranks=list(spec['ranks']))
            vals = [x for t in out for p in t for x in (p.mu, p.sigma)]
        else:
            m, teams = PR.float_teams(key, shape, inp)
            vals = list(H._flatten(PR.call(m, op, teams)))
        bad = [v for v in vals if isinstance(v, float) and not math.isfinite(v)]
        want = 2 * sum(shape) if op == 'rate' else (1 if op == 'predict_draw' else (2 * len(shape) if op == 'predict_rank' else len(shape)))
        if len(vals) != want:
            return {'violated': True, 'key': f'{key}:{op}:{H.shape_str(shape)}:structure',
                    'detail': f'C08 {H.MODEL_NAMES[key]}.{op} shape={shape} ranks={spec["ranks"]} inputs={inp}: returns {len(vals)} numbers instead of {want}'}
        return {'violated': bool(bad), 'key': f'{key}:{op}:{H.shape_str(shape)}:nonfinite',
                'detail': f'C08 {H.MODEL_NAMES[key]}.{op} shape={shape} ranks={spec["ranks"]} inputs={inp}: non-finite values {bad[:3]}'}
    except (ArithmeticError, ValueError, IndexError, KeyError, TypeError) as e:
        return {'violated': True, 'key': f'{key}:{op}:{H.shape_str(shape)}:{type(e).__name__}',
                'detail': f'C08 {H.MODEL_NAMES[key]}.{op} shape={shape} ranks={spec["ranks"]} inputs={inp}: raises {e!r}'}
