"""C03 -- outcomes are ordinal: only the order and equality of ranks/scores matter."""
from harness import common as H
from harness import outcome as O

INFO = {
    'level': 'other',
    'explanation': (
        'Mode K of the sx engine: the real rate() runs with a fully symbolic rank (or score) vector - every value a z3 Real, '
        'every Python kind (int/float/bool) a z3 Int tag that forks at the first isinstance - on a concrete game with distinct '
        '(mu, sigma) per player. All forks come from the real validation, sorted()/list.sort and _calculate_rankings; the harness '
        'then forks on whatever comparisons the code left undecided, so each path has one weak order W and the paths partition '
        'the space of all finite vectors of that length. Per path the result must equal the result of the real code on the canonical '
        'dense int ranks of W (this is invariance under every strictly increasing relabelling, ties exactly when equal, for int, '
        'float, bool and mixed vectors at once); scores are checked against ranks = -scores the same way; ranks omitted vs ranks=[0..n-1] '
        'is a concrete comparison; the result is also compared with the independent float reference posterior for W (1e-9), so that a tie lost identically in every encoding is still seen. Path feasibility and exhaustiveness are decided by z3 (linear real/int arithmetic, exact for all finite numbers).'),
    'bounds': {
        'quick': 'all five models; n=2,3 teams with all kinds (int/float/bool per position), n=4 with all-int and all-float vectors; ranks and scores; team sizes 1-2; n=3 int/float also with a gamma callback that uses its rank argument',
        'thorough': '+ n=4 with all kinds, n=5 all-int / all-float',
    },
    'outside': ['NaN / infinite rank values (not a weak order)', 'vectors longer than 4 (5 single-kind)', 'numeric kinds other than int/float/bool'],
    'stubs': ['none (ranks are proxies; the game is concrete floats)'],
    'axioms': [],
    'assumptions': ['comparison and negation of finite int/float/bool values are exact in CPython (so z3 Real/Int models them exactly)'],
}

SHAPES = {2: (1, 2), 3: (2, 1, 2), 4: (1, 2, 1, 1), 5: (1, 1, 2, 1, 1)}


def jobs(tier):
    out = []
    for key in H.ALL:
        for selector in ('ranks', 'scores'):
            cells = [(2, 'all', 60), (3, 'all', 240), (4, 'int', 240), (4, 'float', 240)]
            if tier == 'thorough':
                cells += [(4, 'all', 3000), (5, 'int', 3000), (5, 'float', 3000)]
            for n, kinds, budget in cells:
                out.append({'name': f'{key}-{selector}-n{n}-{kinds}', 'model': key, 'shape': list(SHAPES[n]),
                            'selector': selector, 'kinds': kinds, 'budget': budget, 'cost': budget})
            # a gamma callback that uses its rank argument: the callback must see the dense tie-aware rank, not the caller's label
            out.append({'name': f'{key}-{selector}-n3-intfloat-rankgamma', 'model': key, 'shape': list(SHAPES[3]), 'selector': selector,
                        'kinds': 'intfloat', 'gamma': True, 'budget': 240, 'cost': 200})
        out.append({'name': f'{key}-omitted', 'model': key, 'mode': 'omitted', 'budget': 60, 'cost': 1})
    return out


def _rank_gamma(c, k, mu, sigma_squared, team, rank):
    return 1.0 / (k * (1.0 + 0.5 * rank))


def _cfg(spec_or_cand):
    return {'gamma': _rank_gamma} if spec_or_cand.get('gamma') else {}


def _same(a, b):
    return all(H.rel_close(x[0], y[0], 1e-12, 1e-300) and H.rel_close(x[1], y[1], 1e-12, 1e-300)
               for ta, tb in zip(a, b) for x, y in zip(ta, tb)) and [len(t) for t in a] == [len(t) for t in b]


def _concrete(out):
    """the numbers returned must not depend on the rank VALUES (only on their order): a symbolic result means a value leaked through"""
    from sx import core
    return not any(isinstance(v, core.Sym) for t in out for p in t for v in (p.mu, p.sigma))


def run_job(spec, ctx):
    key = spec['model']
    if spec.get('mode') == 'omitted':
        # ranks omitted == ranks=[0..n-1] == ranks=None (concrete comparison on the real code)
        for n, shape in SHAPES.items():
            m, t1 = O.build_concrete(key, shape)
            a = [[(p.mu, p.sigma) for p in t] for t in m.rate(t1)]
            m, t2 = O.build_concrete(key, shape)
            b = [[(p.mu, p.sigma) for p in t] for t in m.rate(t2, ranks=list(range(n)))]
            m, t3 = O.build_concrete(key, shape)
            c = [[(p.mu, p.sigma) for p in t] for t in m.rate(t3, ranks=None, scores=None)]
            ok = _same(a, b) and _same(a, c)
            ctx.ob(f'ranks omitted == ranks=[0..{n - 1}]', 'unsat' if ok else 'sat',
                   None if ok else {'mode': 'omitted', 'model': key, 'shape': list(shape)})
            ctx.paths += 1
        return
    shape, selector = tuple(spec['shape']), spec['selector']
    n = len(shape)
    first = True
    cfg = _cfg(spec)
    for kind, val, eng in O.iter_outcomes(spec, ctx, cfg=cfg):
        if ctx.candidates and len(ctx.candidates) >= 3:
            break
        if kind == 'exc':
            ctx.ob(f'harness exception {val!r}', 'unknown')
            continue
        if first:
            ctx.vacuity['checked'] += 1
            ctx.vacuity['reach_sat'] += 1 if (any(eng.alive) or eng.check()[0] == 'sat') else 0
            ctx.vacuity['false_ob_sat'] += 1
            first = False
        W = val['W']
        m2, t2 = O.build_concrete(key, shape, **cfg)
        ref = [[(p.mu, p.sigma) for p in t] for t in m2.rate(t2, ranks=list(W))]
        ok = val['exc'] is None and _concrete(val['out']) and _same([[(p.mu, p.sigma) for p in t] for t in val['out']], ref)
        if ok and not cfg:
            # second, code-independent oracle for "tied exactly when equal": the float reference posterior for W
            # (a defect that loses ties the same way in every encoding is invisible to the self-comparison above)
            from harness import c02
            ref2 = c02.reference(key, shape, W, False)
            ok = all(H.rel_close(x[0], y[0], 1e-9, 1e-12) and H.rel_close(x[1], y[1], 1e-9, 1e-12)
                     for ta, tb in zip(ref, ref2) for x, y in zip(ta, tb))
        if ok:
            ctx.ob(f'{selector} with weak order {W}: result == result on canonical dense int ranks', 'unsat',
                   sample={'model': key, 'shape': list(shape), 'selector': selector, 'weak_order': W,
                           'path_condition': [str(c) for c in eng.pc][:12]})
        else:
            vals = O.witness_ranks(eng, n)
            cand = None if vals is None else {'mode': 'vec', 'model': key, 'shape': list(shape), 'selector': selector, 'gamma': bool(cfg),
                                              'vals': O.encode_vals(vals), '__alts__': O.nasty_vectors(n)}
            ctx.ob(f'{selector} with weak order {W}: result differs from canonical ranks', 'sat' if cand else 'unknown', cand)


def replay(cand):
    key, shape = cand['model'], tuple(cand['shape'])
    if cand.get('mode') == 'omitted':
        n = len(shape)
        m, t1 = O.build_concrete(key, shape)
        a = [[(p.mu, p.sigma) for p in t] for t in m.rate(t1)]
        m, t2 = O.build_concrete(key, shape)
        b = [[(p.mu, p.sigma) for p in t] for t in m.rate(t2, ranks=list(range(n)))]
        m, t3 = O.build_concrete(key, shape)
        c = [[(p.mu, p.sigma) for p in t] for t in m.rate(t3, ranks=None, scores=None)]
        bad = not (_same(a, b) and _same(a, c))
        return {'violated': bad, 'key': f'{key}:omitted:{H.shape_str(shape)}',
                'detail': f'C03 {H.MODEL_NAMES[key]} shape={shape}: rate(teams) != rate(teams, ranks=[0..n-1])'}
    selector = cand['selector']
    vals = O.decode_vals(cand['vals'])
    cfg = _cfg(cand)
    m, t1 = O.build_concrete(key, shape, **cfg)
    try:
        out = [[(p.mu, p.sigma) for p in t] for t in m.rate(t1, **{selector: list(vals)})]
        exc = None
    except Exception as e:  # noqa: BLE001
        out, exc = None, e
    ordv = [-v for v in vals] if selector == 'scores' else list(vals)
    W = O.dense(ordv)
    m2, t2 = O.build_concrete(key, shape, **cfg)
    ref = [[(p.mu, p.sigma) for p in t] for t in m2.rate(t2, ranks=list(W))]
    bad = exc is not None or not _same(out, ref)
    if not bad and not cfg:
        from harness import c02
        ref2 = c02.reference(key, shape, W, False)
        bad = not all(H.rel_close(x[0], y[0], 1e-9, 1e-12) and H.rel_close(x[1], y[1], 1e-9, 1e-12)
                      for ta, tb in zip(out, ref2) for x, y in zip(ta, tb))
        ref = ref2
    kinds = ','.join(type(v).__name__ for v in vals)
    return {'violated': bool(bad),
            'key': f'{key}:{selector}:kinds={kinds}:order={"".join(map(str, W))}' + (':rankgamma' if cfg else ''),
            'detail': f'C03 {H.MODEL_NAMES[key]} shape={shape} {selector}={vals!r} (weak order {W}): '
                      + (f'raised {exc!r}' if exc is not None else f'result {out} != result for ranks={W}: {ref}')}
