"""sx.kinds -- symbolic Python kinds (mode K).

KSym   : a number whose *value* is a z3 Real and whose Python *kind*
         (int / float / bool) is a z3 Int tag; the first isinstance() on it
         forks on the tag (DESIGN 2.4).
Lazy   : an object of symbolic kind drawn from a finite menu of
         representatives; the first operation the real code performs on it
         forks over the menu.
"""
import copy

import z3

from sx import core
from sx.core import Sym

KINDS = [int, float, bool]
KIND_NAMES = ['int', 'float', 'bool']


def kind_domain(r, k, kinds=(0, 1, 2)):
    """constraints tying a value to its kind tag"""
    cs = [z3.Or(*[k == i for i in kinds])]
    cs.append(z3.Implies(k == 2, z3.Or(r == 0, r == 1)))
    cs.append(z3.Implies(k != 1, z3.IsInt(r)))
    return cs


class KSym(Sym):
    __slots__ = ('k', 'ks', '_kc')

    def __init__(self, t, k, s=None, ks=None, kc=None):
        self.t = t
        self.k = k
        self.f = core.TOP
        env = core.ENG.env
        self.s = s if s is not None else tuple(float(e[str(t)]) for e in env)
        self.ks = ks if ks is not None else tuple(int(e[str(k)]) for e in env)
        self._kc = kc

    def _resolve(self):
        if self._kc is None:
            eng = core.ENG
            n = len(KINDS)
            got = n - 1
            for i in range(n - 1):
                if eng.branch(self.k == i, [(v == i, True) for v in self.ks]):
                    got = i
                    break
            self._kc = KINDS[got]
        return self._kc

    @property
    def kind(self):
        return self._resolve()

    @kind.setter
    def kind(self, v):
        pass

    @property
    def __class__(self):
        return self._resolve()

    def __neg__(self):
        kc = self._kc
        if kc is bool:
            kc = int
        return KSym(-self.t, z3.If(self.k == 2, z3.IntVal(0), self.k), s=tuple(-x for x in self.s),
                    ks=tuple(0 if v == 2 else v for v in self.ks), kc=kc)

    def __repr__(self):
        return f"KSym<{self.t}>"


def concretise(model, name, kname):
    """python value of the right kind from a z3 model"""
    v = model.eval(z3.Real(name), model_completion=True)
    k = model.eval(z3.Int(kname), model_completion=True).as_long()
    from fractions import Fraction
    if z3.is_algebraic_value(v):
        v = v.approx(20)
    fr = Fraction(v.numerator_as_long(), v.denominator_as_long())
    if k == 0:
        return int(fr)
    if k == 2:
        return bool(int(fr))
    return float(fr)


# --------------------------------------------------------------------------
# lazy objects of symbolic kind
# --------------------------------------------------------------------------
class Choice:
    """symbolic finite choice: z3 Int tag, realised lazily by forking"""

    def __init__(self, name, n):
        self.name = name
        self.v = z3.Int(name)
        self.n = n
        self.val = None

    def get(self):
        if self.val is None:
            eng = core.ENG
            sh = None
            if eng.env and self.name in eng.env[0]:
                vals = [int(e[self.name]) for e in eng.env]
            else:
                vals = None
            got = self.n - 1
            for i in range(self.n - 1):
                if vals is None:
                    # an independent tag with domain 0..n-1 of which 0..i-1 are excluded on this path:
                    # both v == i and v != i are feasible by construction
                    if eng.fork_both(self.v == i):
                        got = i
                        break
                    continue
                sh = [(v == i, True) for v in vals]
                if eng.branch(self.v == i, sh):
                    got = i
                    break
            self.val = got
        return self.val

    def dom(self):
        return [self.v >= 0, self.v < self.n]


class Lazy:
    """object whose kind is a symbolic choice over `menu` = [(label, factory)]"""

    def __init__(self, name, menu, registry=None):
        object.__setattr__(self, '_c', Choice(name, len(menu)))
        object.__setattr__(self, '_menu', menu)
        object.__setattr__(self, '_rep', None)
        object.__setattr__(self, '_name', name)
        if registry is not None:
            registry.append(self)

    def _r(self):
        if object.__getattribute__(self, '_rep') is None:
            i = object.__getattribute__(self, '_c').get()
            object.__setattr__(self, '_rep', (object.__getattribute__(self, '_menu')[i][1](),))
        return object.__getattribute__(self, '_rep')[0]

    def _resolved(self):
        return object.__getattribute__(self, '_rep') is not None

    def _label(self):
        c = object.__getattribute__(self, '_c')
        return None if c.val is None else object.__getattribute__(self, '_menu')[c.val][0]

    def _tag(self):
        return object.__getattribute__(self, '_c').v

    def _dom(self):
        return object.__getattribute__(self, '_c').dom()

    @property
    def __class__(self):
        r = self._r()
        if isinstance(r, Sym):
            return r.__class__
        return type(r)

    def __len__(self):
        return len(self._r())

    def __iter__(self):
        return iter(self._r())

    def __getitem__(self, i):
        return self._r()[i]

    def __setitem__(self, i, v):
        self._r()[i] = v

    def __bool__(self):
        return bool(self._r())

    def __getattr__(self, n):
        return getattr(self._r(), n)

    def __setattr__(self, n, v):
        setattr(self._r(), n, v)

    def __deepcopy__(self, memo):
        return copy.deepcopy(self._r(), memo)

    def __hash__(self):
        return hash(self._r())

    def __eq__(self, o):
        return self._r() == (o._r() if type(o) is Lazy else o)

    def __ne__(self, o):
        return self._r() != (o._r() if type(o) is Lazy else o)

    def __mul__(self, o):
        return self._r() * (o._r() if type(o) is Lazy else o)

    def __rmul__(self, o):
        return o * self._r()

    def __add__(self, o):
        return self._r() + (o._r() if type(o) is Lazy else o)

    def __radd__(self, o):
        return o + self._r()

    def __sub__(self, o):
        return self._r() - (o._r() if type(o) is Lazy else o)

    def __rsub__(self, o):
        return o - self._r()

    def __neg__(self):
        return -self._r()

    def __abs__(self):
        return abs(self._r())

    def __lt__(self, o):
        return self._r() < (o._r() if type(o) is Lazy else o)

    def __le__(self, o):
        return self._r() <= (o._r() if type(o) is Lazy else o)

    def __gt__(self, o):
        return self._r() > (o._r() if type(o) is Lazy else o)

    def __ge__(self, o):
        return self._r() >= (o._r() if type(o) is Lazy else o)

    def __repr__(self):
        return f"Lazy<{object.__getattribute__(self, '_name')}:{self._label()}>"
