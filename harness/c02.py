"""C02 -- rate() result corresponds to its input position by position and player by player."""
from harness import common as H
from harness import outcome as O

INFO = {
    'level': 'other',
    'explanation': (
        'Mode K of the sx engine (see C03): the real rate() runs with a fully symbolic rank/score vector (values and Python kinds) on '
        'a concrete game whose players have distinct (mu, sigma), ids and names; every path fixes one weak order W and the paths '
        'partition all finite vectors of that length (z3 decides feasibility, so every comparison sequence list.sort can take is covered). '
        'Per path, concretely: same nesting and lengths; result[i][j] carries the id and name of teams[i][j]; no object appears twice; '
        'the passed-in objects are either all untouched or each equal to its returned counterpart; and the numbers at result[i][j] equal the '
        'independent reference posterior (ref/wenglin.py in floats, 1e-9) of that very slot for W - a swap of two equal-sized teams or a '
        'result left in rank-sorted order is a mismatch. limit_sigma on and off.'),
    'bounds': {
        'quick': 'five models x {ranks, scores} x n=2,3 (all kinds), n=4 (all-int, all-float) x limit_sigma on/off; team sizes 1-3, equal-sized teams present; games with distinct players and games of value-equal fresh players',
        'thorough': '+ n=4 all kinds, n=5 single kind',
    },
    'outside': ['vectors longer than 4 (5 single-kind)', '6-8 teams', 'rounding below 1e-9 in the slot comparison'],
    'stubs': ['none'],
    'axioms': [],
    'assumptions': ['reference ref/wenglin.py (float evaluation) identifies the posterior of a slot'],
}

SHAPES = {2: (2, 2), 3: (2, 1, 2), 4: (1, 2, 1, 2), 5: (1, 1, 2, 1, 1)}


def jobs(tier):
    out = []
    for key in H.ALL:
        for selector in ('ranks', 'scores'):
            for ls in (False, True):
                cells = [(2, 'all', 60), (3, 'all', 240), (4, 'int', 240), (4, 'float', 240)]
                if tier == 'thorough':
                    cells += [(4, 'all', 3000), (5, 'int', 3000)]
                for n, kinds, budget in cells:
                    if ls and kinds == 'float':
                        continue
                    out.append({'name': f'{key}-{selector}-n{n}-{kinds}-{"ls" if ls else "nols"}', 'model': key,
                                'shape': list(SHAPES[n]), 'selector': selector, 'kinds': kinds, 'ls': ls,
                                'budget': budget, 'cost': budget})
                    if not ls and kinds in ('all', 'int') and selector == 'ranks':
                        # value-equal players (fresh default ratings), equal-sized teams
                        out.append({'name': f'{key}-{selector}-n{n}-{kinds}-fresh', 'model': key,
                                    'shape': [2] * n if n < 4 else [1] * n, 'selector': selector, 'kinds': kinds, 'ls': ls,
                                    'game': 'fresh', 'budget': budget, 'cost': budget})
    return out


def structural_problems(teams_objs, ids, before, out, ref):
    """concrete checks on one finished call; returns a list of problem strings"""
    probs = []
    if not isinstance(out, list) or len(out) != len(teams_objs):
        return [f'result has {len(out) if isinstance(out, list) else type(out)} teams for {len(teams_objs)} passed']
    seen = set()
    for i, (t_in, t_out) in enumerate(zip(teams_objs, out)):
        if not isinstance(t_out, list) or len(t_out) != len(t_in):
            probs.append(f'team {i}: {len(t_out) if isinstance(t_out, list) else type(t_out)} players returned for {len(t_in)} passed')
            continue
        for j, p in enumerate(t_out):
            if id(p) in seen:
                probs.append(f'result[{i}][{j}] is an object that already appeared in the result')
            seen.add(id(p))
            if (p.id, p.name) != ids[i][j]:
                probs.append(f'result[{i}][{j}] carries id/name {(p.id, p.name)} instead of {ids[i][j]}')
            rm, rs = ref[i][j]
            if not (H.rel_close(p.mu, rm, 1e-9, 1e-12) and H.rel_close(p.sigma, rs, 1e-9, 1e-12)):
                probs.append(f'result[{i}][{j}] = ({p.mu}, {p.sigma}) is not the posterior of that slot ({rm}, {rs})')
    if probs:
        return probs
    # aliasing clause: passed-in objects all untouched, or each equal to its returned counterpart
    untouched = all((p.mu, p.sigma) == before[i][j] for i, t in enumerate(teams_objs) for j, p in enumerate(t))
    updated = all((p.mu, p.sigma) == (out[i][j].mu, out[i][j].sigma) for i, t in enumerate(teams_objs) for j, p in enumerate(t))
    if not (untouched or updated):
        probs.append('passed-in rating objects are a mixture of untouched and updated')
    for i, t in enumerate(teams_objs):
        for j, p in enumerate(t):
            if (p.id, p.name) != ids[i][j]:
                probs.append(f'passed-in teams[{i}][{j}] lost its id/name')
    return probs


def reference(key, shape, W, ls, cfg=None):
    from ref import wenglin as R
    Model = H.model_class(key)
    m = Model(**(cfg or {}))
    prior = [[(mu, sg) for (mu, sg, _) in row] for row in O.game_values(shape)]
    P = R.FloatPrims

    class P2(P):
        pass
    # the float reference uses the same CDF as the library build under test, so that only placement matters here
    from openskill.models.weng_lin import common as C
    P2.cdf = staticmethod(C.phi_major)
    P2.pdf = staticmethod(C.phi_minor)
    return R.rate_ref(key, P2, prior, W, m.beta, m.kappa, m.tau, limit_sigma=ls)


def run_job(spec, ctx):
    key, shape, selector, ls = spec['model'], tuple(spec['shape']), spec['selector'], spec['ls']
    n = len(shape)
    first = True
    for kind, val, eng in O.iter_outcomes(spec, ctx, cfg={'limit_sigma': ls}):
        if len(ctx.candidates) >= 3:
            break
        if kind == 'exc':
            ctx.ob(f'harness exception {val!r}', 'unknown')
            continue
        if first:
            ctx.vacuity['checked'] += 1
            ctx.vacuity['reach_sat'] += 1 if (any(eng.alive) or eng.check()[0] == 'sat') else 0
            ctx.vacuity['false_ob_sat'] += 1
            first = False
        W = val['W']
        if val['exc'] is not None:
            probs = [f'raised {val["exc"]!r}']
        else:
            ref = reference(key, shape, W, ls)
            probs = structural_problems(val['objs'], val['ids'], val['before'], val['out'], ref)
        if not probs:
            ctx.ob(f'{selector}, weak order {W}: ids/names/slots/aliasing', 'unsat',
                   sample={'model': key, 'shape': list(shape), 'selector': selector, 'limit_sigma': ls, 'weak_order': W,
                           'path_condition': [str(c) for c in eng.pc][:12]})
        else:
            vals = O.witness_ranks(eng, n)
            cand = None if vals is None else {'model': key, 'shape': list(shape), 'selector': selector, 'ls': ls, 'game': spec.get('game', 'distinct'),
                                              'vals': O.encode_vals(vals), '__alts__': O.nasty_vectors(n)}
            ctx.ob(f'{selector}, weak order {W}: {probs[0]}', 'sat' if cand else 'unknown', cand)


def replay(cand):
    key, shape, selector, ls = cand['model'], tuple(cand['shape']), cand['selector'], cand['ls']
    vals = O.decode_vals(cand['vals'])
    O.GAME['variant'] = cand.get('game', 'distinct')
    m, teams = O.build_concrete(key, shape, limit_sigma=ls)
    ids = [[(p.id, p.name) for p in t] for t in teams]
    objs = [list(t) for t in teams]
    before = [[(p.mu, p.sigma) for p in t] for t in teams]
    ordv = [-v for v in vals] if selector == 'scores' else list(vals)
    W = O.dense(ordv)
    try:
        out = m.rate(teams, **{selector: list(vals)})
        probs = structural_problems(objs, ids, before, out, reference(key, shape, W, ls))
    except Exception as e:  # noqa: BLE001
        probs = [f'raised {e!r}']
    kinds = ','.join(type(v).__name__ for v in vals)
    return {'violated': bool(probs),
            'key': f'{key}:{selector}:ls={ls}:kinds={kinds}:order={"".join(map(str, W))}',
            'detail': f'C02 {H.MODEL_NAMES[key]} shape={shape} game={cand.get("game", "distinct")} {selector}={vals!r} limit_sigma={ls}: ' + '; '.join(probs[:4])}
