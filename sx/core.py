"""sx.core -- symbolic shadow execution of the real openskill code.

The real Python functions from /repo run on `Sym` proxies (z3 Real terms).
Every symbolic branch goes through `Engine.branch`, which decides feasibility
with z3 and forks by re-execution (decision prefixes on a work list), so that
the set of explored paths partitions the symbolic input space.  exp / sqrt /
Phi / phi / gamma are Ackermannised applications with eager congruence
(see DESIGN.md section 2.2).

Nothing here samples: the concolic shadows (a few concrete float points carried
by every proxy) are only used as *witnesses of feasibility* and as a filter for
congruence candidates; every verdict is a solver verdict.
"""
import builtins
import math
import os
import random
import time
from fractions import Fraction
from statistics import NormalDist

import z3

K = 4  # number of concolic shadow points


class Abort(BaseException):
    """path is infeasible / exploration must stop (never caught by repo code)"""


class Budget(BaseException):
    """job budget exhausted"""


def rv(x):
    if isinstance(x, bool):
        return z3.RealVal(int(x))
    if isinstance(x, int):
        return z3.RealVal(x)
    return z3.RealVal(str(Fraction(x)))


# --------------------------------------------------------------------------
# interval facts  (lo, lo_strict, hi, hi_strict); None = unbounded
# Every transfer rule below is a standard interval-arithmetic rule; they are
# used only to build the *lemma abstraction* (check_lemma), whose verdicts are
# solver verdicts on the abstracted formula.  Endpoints are floats; products
# and quotients of endpoints are widened outwards by one ulp-ish factor so
# that float rounding of endpoints never makes a lemma unsound.
# --------------------------------------------------------------------------
def F(lo=None, ls=False, hi=None, hs=False):
    return (lo, ls, hi, hs)


TOP = F()


def _down(x):
    if x is None:
        return None
    if x == 0:
        return 0.0
    return math.nextafter(x, -math.inf)


def _up(x):
    if x is None:
        return None
    if x == 0:
        return 0.0
    return math.nextafter(x, math.inf)


def _exact(f, frac):
    """is the float f exactly the rational frac?"""
    try:
        return (not math.isinf(f)) and Fraction(f) == frac
    except (OverflowError, ValueError):
        return False


def fconst(c):
    c = float(c)
    return (c, False, c, False)


def facts_of(x):
    if isinstance(x, Sym):
        return x.f
    return fconst(x)


def f_neg(a):
    return (None if a[2] is None else -a[2], a[3], None if a[0] is None else -a[0], a[1])


def f_add(a, b):
    if a[0] is None or b[0] is None:
        lo, ls = None, False
    else:
        lo = a[0] + b[0]
        ls = a[1] or b[1]
        if not _exact(lo, Fraction(a[0]) + Fraction(b[0])):
            lo = _down(lo)
    if a[2] is None or b[2] is None:
        hi, hs = None, False
    else:
        hi = a[2] + b[2]
        hs = a[3] or b[3]
        if not _exact(hi, Fraction(a[2]) + Fraction(b[2])):
            hi = _up(hi)
    return (lo, ls, hi, hs)


def _sgn(a):
    """'pos','nonneg','neg','nonpos',None"""
    if a[0] is not None and (a[0] > 0 or (a[0] == 0 and a[1])):
        return 'pos'
    if a[0] is not None and a[0] >= 0:
        return 'nonneg'
    if a[2] is not None and (a[2] < 0 or (a[2] == 0 and a[3])):
        return 'neg'
    if a[2] is not None and a[2] <= 0:
        return 'nonpos'
    return None


def f_mul(a, b):
    sa, sb = _sgn(a), _sgn(b)
    if sa in ('pos', 'nonneg') and sb in ('pos', 'nonneg'):
        lo = a[0] * b[0]
        if lo == 0:
            ls = (sa == 'pos' and sb == 'pos')
        else:
            ls = a[1] and b[1]
            if not _exact(lo, Fraction(a[0]) * Fraction(b[0])):
                lo = _down(lo)
            if lo < 0:
                lo, ls = 0.0, True
        if a[2] is None or b[2] is None:
            hi, hs = None, False
        else:
            hi = a[2] * b[2]
            hs = (a[3] or b[3])
            if hi == 0:
                hs = False
            elif not math.isinf(hi) and not _exact(hi, Fraction(a[2]) * Fraction(b[2])):
                hi = _up(hi)
            if math.isinf(hi):
                hi, hs = None, False
        return (lo, ls, hi, hs)
    if sa in ('neg', 'nonpos') and sb in ('neg', 'nonpos'):
        return f_mul(f_neg(a), f_neg(b))
    if sa in ('neg', 'nonpos') and sb in ('pos', 'nonneg'):
        return f_neg(f_mul(f_neg(a), b))
    if sa in ('pos', 'nonneg') and sb in ('neg', 'nonpos'):
        return f_neg(f_mul(a, f_neg(b)))
    return TOP


def f_inv(b):
    sb = _sgn(b)
    if sb == 'pos':
        if b[0] == 0:
            hi, hs = None, False
        else:
            hi, hs = 1.0 / b[0], b[1]
            if math.isinf(hi):
                hi, hs = None, False
            elif not _exact(hi, 1 / Fraction(b[0])):
                hi = _up(hi)
        if b[2] is None:
            lo, ls = 0.0, True
        else:
            lo, ls = 1.0 / b[2], b[3]
            if not _exact(lo, 1 / Fraction(b[2])):
                lo = _down(lo)
            if lo <= 0:
                lo, ls = 0.0, True
        return (lo, ls, hi, hs)
    if sb == 'neg':
        return f_neg(f_inv(f_neg(b)))
    return TOP


def f_max(a, b):
    if a[0] is None:
        lo, ls = b[0], b[1]
    elif b[0] is None:
        lo, ls = a[0], a[1]
    elif a[0] > b[0]:
        lo, ls = a[0], a[1]
    elif b[0] > a[0]:
        lo, ls = b[0], b[1]
    else:
        lo, ls = a[0], (a[1] or b[1])
    if a[2] is None or b[2] is None:
        hi, hs = None, False
    elif a[2] > b[2]:
        hi, hs = a[2], a[3]
    elif b[2] > a[2]:
        hi, hs = b[2], b[3]
    else:
        hi, hs = a[2], (a[3] and b[3])
    return (lo, ls, hi, hs)


def f_min(a, b):
    return f_neg(f_max(f_neg(a), f_neg(b)))


def f_formulas(t, f):
    out = []
    if f[0] is not None:
        out.append(t > rv(f[0]) if f[1] else t >= rv(f[0]))
    if f[2] is not None:
        out.append(t < rv(f[2]) if f[3] else t <= rv(f[2]))
    return out


# --------------------------------------------------------------------------
# the engine: one instance per explored path
# --------------------------------------------------------------------------
class Engine:
    def __init__(self, base, prefix, env, opts=None):
        self.base = list(base)
        self.axioms = []
        self.tiers = []
        self.apps = {}
        self.cons = {}
        self.prefix = prefix
        self.decisions = []
        self.pc = []
        self.worklist = []
        self.nq = 0
        self.tq = 0.0
        self.fresh = 0
        self.reuse = 0
        self.unknown = 0
        self.env = env
        self.alive = [True] * len(env)
        self.saved = 0
        self.gsaved = 0
        self.gassumed = 0
        self.lemmas = {}
        self.opts = opts or {}
        self.memo = {}            # decisions already taken on this path, by term id
        self.open_guards = []     # guard conditions that could not be refuted (C08)
        self.notes = []           # free-form records left by monitors
        self.deadline = self.opts.get('deadline')

    # -- solver access ----------------------------------------------------
    def _tick(self):
        if self.deadline is not None and time.time() > self.deadline:
            raise Budget()

    def add_axiom(self, a, tier=1):
        self.axioms.append(a)
        self.tiers.append(tier)

    def solver(self, timeout):
        s = z3.Solver()
        s.set('timeout', int(timeout))
        s.set('random_seed', int(os.environ.get('VERIF_SEED', '0')) % (2 ** 31))
        return s

    def check(self, *extra, timeout=20000, use_pc=True, use_axioms=True):
        """one-shot query: base + axioms + path + extra"""
        self._tick()
        s = self.solver(timeout)
        for a in self.base:
            s.add(a)
        if use_axioms:
            for a in self.axioms:
                s.add(a)
        if use_pc:
            for a in self.pc:
                s.add(a)
        for e in extra:
            s.add(e)
        t = time.time()
        r = s.check()
        dt = time.time() - t
        self.tq += dt
        self.nq += 1
        r = str(r)
        # cross-check only what z3 decided quickly: exporting and re-deciding the big QF_NRA formulas costs minutes of the job budget
        if r == 'unsat' and timeout >= 20000 and XCHECK['every'] and dt < 3.0:
            XCHECK['seen'] += 1
            # at most 8 cross-checks per job: each costs up to 20 s of the job's budget (heavy QF_NRA queries are `unknown` in cvc5 anyway)
            if XCHECK['seen'] % XCHECK['every'] == 0 and XCHECK['checked'] < 8:
                cross_check(s)
        return r, (s.model() if r == 'sat' else None)

    @staticmethod
    def vars_of(e, acc):
        stack = [e]
        seen = set()
        while stack:
            x = stack.pop()
            if x.get_id() in seen:
                continue
            seen.add(x.get_id())
            if z3.is_const(x) and x.decl().kind() == z3.Z3_OP_UNINTERPRETED:
                acc.add(x.decl().name())
            stack.extend(x.children())
        return acc

    def _slice_pool(self):
        n = len(self.axioms)
        cache = getattr(self, '_pool_cache', None)
        if cache is None:
            cache = self._pool_cache = {'n': 0, 'ax': [], 'base': [(b, self.vars_of(b, set())) for b in self.base]}
        for k in range(cache['n'], n):
            if self.tiers[k] == 0:
                cache['ax'].append((self.axioms[k], self.vars_of(self.axioms[k], set())))
        cache['n'] = n
        return cache['ax'] + cache['base'] + [(c_, self.vars_of(c_, set())) for c_ in self.pc]

    def check_bare(self, cond, timeout=1000):
        """the condition alone (e.g. a sum of squares is never negative): no axioms, no path"""
        self._tick()
        sol = self.solver(timeout)
        sol.add(cond)
        t = time.time()
        r = sol.check()
        self.tq += time.time() - t
        self.nq += 1
        return str(r)

    def check_slice(self, cond, timeout=3000, depth=None):
        """cone-of-influence query with T0 axioms only (sound for proving unsat:
        it uses a subset of the constraints); `depth` bounds the number of closure rounds"""
        self._tick()
        need = self.vars_of(cond, set())
        pool = self._slice_pool()
        chosen = []
        changed = True
        used = set()
        rounds = 0
        while changed and (depth is None or rounds < depth):
            rounds += 1
            changed = False
            for k, (a, vs) in enumerate(pool):
                if k in used:
                    continue
                if vs & need and len(vs) <= (6 if depth is None else 14):
                    if depth is not None and (z3.is_implies(a) or len(vs) > 4 and not vs <= need and z3.is_eq(a) and a.arg(1).num_args() > 6):
                        continue   # light slices: no conditional axioms, no big definitions
                    used.add(k)
                    chosen.append(a)
                    if not vs <= need:
                        need |= vs
                        changed = True
        if depth is not None:
            # closing round: constraints that only talk about variables already in the slice (e.g. beta > 0)
            for k, (a, vs) in enumerate(pool):
                if k not in used and vs and vs <= need and not z3.is_implies(a):
                    used.add(k)
                    chosen.append(a)
        sol = self.solver(timeout)
        for a in chosen:
            sol.add(a)
        sol.add(cond)
        t = time.time()
        r = sol.check()
        self.tq += time.time() - t
        self.nq += 1
        return str(r)

    def check_lemma(self, obligation_neg, timeout=20000, small=120, extra=()):
        """query on the lemma abstraction: primitive applications with a big
        argument keep only their proved range lemma (over-approximation, so
        `unsat` carries over to the full formula)"""
        self._tick()
        sol = self.solver(timeout)
        for b in self.base:
            sol.add(b)
        for name, (var, rf, a0, asz, a1) in self.lemmas.items():
            for fml in f_formulas(var, rf):
                sol.add(fml)
            if asz <= small:
                for a, t in zip(self.axioms[a0:a1], self.tiers[a0:a1]):
                    if t == 0:
                        sol.add(a)
        for c in self.pc:
            sol.add(c)
        for e in extra:
            sol.add(e)
        sol.add(obligation_neg)
        t = time.time()
        r = sol.check()
        self.tq += time.time() - t
        self.nq += 1
        r = str(r)
        return r, (sol.model() if r == 'sat' else None)

    # -- branching -----------------------------------------------------------
    def guard(self, cond, sh, what='guard'):
        """exception guard: returns True when the *bad* side is taken"""
        cond = z3.simplify(cond)
        if z3.is_false(cond):
            return False
        if z3.is_true(cond):
            return True
        hit = self.memo.get(cond.get_id())
        if hit is not None:
            return hit[0]
        d = self._guard(cond, sh, what)
        self.memo[cond.get_id()] = (d, cond)
        return d

    def _guard(self, cond, sh, what):
        i = len(self.decisions)
        if i < len(self.prefix):
            return self._branch(cond, sh)
        if any(self.alive[k] and ok and v for k, (v, ok) in enumerate(sh)):
            return self._branch(cond, sh)
        if (self.check_bare(cond) == 'unsat' or self.check_slice(cond, timeout=1500, depth=1) == 'unsat'
                or self.check_slice(cond) == 'unsat' or self.check_slice(abstract(cond)) == 'unsat'):
            self.decisions.append((False, False))
            self.gsaved += 1
            return False
        mode = self.opts.get('guards', 'assume')
        if mode == 'assume':
            # totality is C08's business; other harnesses run on the good side
            self.decisions.append((False, False))
            self.gassumed += 1
            return False
        if mode == 'record':
            r, _ = self.check(cond, timeout=self.opts.get('guard_timeout', 10000))
            if r == 'unsat':
                self.decisions.append((False, False))
                self.gsaved += 1
                return False
            self.open_guards.append((what, cond, r))
            self.decisions.append((False, False))
            return False
        return self._branch(cond, sh)

    def branch(self, cond, sh=None):
        cond = z3.simplify(cond)
        if z3.is_true(cond):
            return True
        if z3.is_false(cond):
            return False
        hit = self.memo.get(cond.get_id())
        if hit is not None:
            return hit[0]
        d = self._branch(cond, sh)
        self.memo[cond.get_id()] = (d, cond)
        n = z3.simplify(z3.Not(cond))
        self.memo[n.get_id()] = (not d, n)
        return d

    def _branch(self, cond, sh=None):
        i = len(self.decisions)
        if i < len(self.prefix):
            d, rec = self.prefix[i]
        else:
            wt = wf = False
            if sh is not None:
                for k, (v, ok) in enumerate(sh):
                    if self.alive[k] and ok:
                        if v:
                            wt = True
                        else:
                            wf = True
            bt = self.opts.get('branch_timeout', 5000)
            if wt:
                ft = True
                self.saved += 1
            else:
                r, _ = self.check(cond, timeout=bt)
                ft = r != 'unsat'
                self.unknown += (r == 'unknown')
            if wf:
                ff = True
                self.saved += 1
            else:
                r, _ = self.check(z3.Not(cond), timeout=bt)
                ff = r != 'unsat'
                self.unknown += (r == 'unknown')
            if ft and ff:
                d, rec = True, True
                self.worklist.append(self.decisions + [(False, True)])
            elif ft:
                d, rec = True, False
            elif ff:
                d, rec = False, False
            else:
                raise Abort('infeasible')
        self.decisions.append((d, rec))
        if rec:
            self.pc.append(cond if d else z3.Not(cond))
            if sh is not None:
                for k, (v, ok) in enumerate(sh):
                    if not ok or v != d:
                        self.alive[k] = False
            else:
                self.alive = [False] * len(self.alive)
        return d

    def fork_both(self, cond):
        """branch whose two sides are known to be feasible by construction (independent finite tags):
        no solver query"""
        cond = z3.simplify(cond)
        i = len(self.decisions)
        if i < len(self.prefix):
            d, rec = self.prefix[i]
        else:
            d, rec = True, True
            self.worklist.append(self.decisions + [(False, True)])
        self.decisions.append((d, rec))
        self.pc.append(cond if d else z3.Not(cond))
        self.alive = [False] * len(self.alive)
        return d

    def choose(self, var, n):
        """fork over the values 0..n-1 of a z3 Int tag"""
        for i in range(n - 1):
            if self.branch(var == i):
                return i
        return n - 1

    def newvar(self, name):
        self.fresh += 1
        return z3.Real(f"{name}!{self.fresh}")

    def valid(self, f, timeout=500):
        sf = z3.simplify(f)
        if z3.is_true(sf):
            return True
        if z3.is_false(sf):
            return False
        r, _ = self.check(z3.Not(sf), timeout=timeout)
        return r == 'unsat'


# second-solver cross-check (thorough tier): every n-th final `unsat` is re-decided by cvc5 from the exported SMT-LIB2
XCHECK = {'every': int(os.environ.get('VERIF_XCHECK', '0') or 0), 'seen': 0, 'checked': 0, 'agree': 0, 'unknown': 0, 'disagree': 0, 'samples': []}


def cross_check(solver, tlimit=20000):
    try:
        import cvc5
    except ImportError:
        return
    smt = solver.to_smt2()
    res = None
    try:
        tm = cvc5.TermManager()
        slv = cvc5.Solver(tm)
        slv.setOption('tlimit-per', str(tlimit))
        slv.setLogic('ALL')
        p = cvc5.InputParser(slv)
        p.setStringInput(cvc5.InputLanguage.SMT_LIB_2_6, smt, 'obligation')
        sm = p.getSymbolManager()
        while True:
            c = p.nextCommand()
            if c.isNull():
                break
            out = str(c.invoke(slv, sm)).strip()
            if out in ('sat', 'unsat', 'unknown'):
                res = out
    except Exception as e:  # noqa: BLE001
        res = 'unknown'
    XCHECK['checked'] += 1
    if res == 'unsat':
        XCHECK['agree'] += 1
    elif res == 'sat':
        XCHECK['disagree'] += 1
        if len(XCHECK['samples']) < 2:
            XCHECK['samples'].append(smt[:2000])
    else:
        XCHECK['unknown'] += 1


ENG = None
INPUT_FACTS = {}
_abs_n = [0]


def abstract(e, limit=25):
    """replace big arguments of ITE / division by fresh reals (over-approximation)"""
    def size(x, cap=limit + 1):
        n = 0
        st = [x]
        while st and n <= cap:
            y = st.pop()
            n += 1
            st.extend(y.children())
        return n
    memo = {}
    fresh_for = {}

    def absreal(c):
        if z3.is_real(c) and size(c) > limit:
            # the same sub-term always gets the same fresh variable
            if c.get_id() not in fresh_for:
                _abs_n[0] += 1
                fresh_for[c.get_id()] = (z3.Real(f"abs!{_abs_n[0]}"), c)
            return fresh_for[c.get_id()][0]
        return None

    def go(x):
        k = x.get_id()
        if k in memo:
            return memo[k][0]
        if z3.is_app(x) and x.num_args() > 0:
            dk = x.decl().kind()
            if dk == z3.Z3_OP_ITE:
                c0, a, b = x.children()
                # operands of the comparison in the condition are abstracted with the same variables as the branches
                if z3.is_app(c0) and c0.num_args() == 2 and all(z3.is_real(y) for y in c0.children()):
                    ops = [absreal(y) if absreal(y) is not None else go(y) for y in c0.children()]
                    c0n = c0.decl()(*ops)
                else:
                    c0n = go(c0)
                an = absreal(a) if absreal(a) is not None else go(a)
                bn = absreal(b) if absreal(b) is not None else go(b)
                r = z3.If(c0n, an, bn)
            elif dk == z3.Z3_OP_DIV:
                ch = [absreal(c) if absreal(c) is not None else go(c) for c in x.children()]
                r = x.decl()(*ch)
            else:
                r = x.decl()(*[go(c) for c in x.children()])
        else:
            r = x
        memo[k] = (r, x)
        return r

    return go(e)


def som(t):
    """sum-of-monomials normal form with sorted sums (syntactic canonicalisation)"""
    return z3.simplify(t, som=True, sort_sums=True)


def _mono_key(t):
    """structural key of a monomial without its numeric coefficient, and the coefficient's sign"""
    if z3.is_rational_value(t):
        return (0,), (1 if t.numerator_as_long() >= 0 else -1)
    if z3.is_mul(t):
        ch = t.children()
        if ch and z3.is_rational_value(ch[0]):
            sg = 1 if ch[0].numerator_as_long() >= 0 else -1
            return tuple(sorted(c.hash() for c in ch[1:])), sg
        return tuple(sorted(c.hash() for c in ch)), 1
    return (t.hash(),), 1


def canon_sign(n):
    """(sign, n') with n == sign*n' and n' having a positive coefficient on its structurally
    smallest monomial.  z3 does not rewrite (-x)/d into -(x/d); this does, so that the
    negation rules of the primitives are decided syntactically."""
    ns = som(n)
    if z3.is_add(ns):
        best = None
        for c in ns.children():
            k, sg = _mono_key(c)
            if k == (0,):
                continue
            if best is None or k < best[0]:
                best = (k, sg)
        if best is not None and best[1] < 0:
            return -1, som(-ns)
        return 1, ns
    k, sg = _mono_key(ns)
    if sg < 0:
        return -1, som(-ns)
    return 1, ns


def is_zero(d):
    return z3.is_rational_value(d) and d.numerator_as_long() == 0


def hashcons(kind, term, sh):
    """reuse an earlier syntactically different but SOM-equal term of the same kind"""
    lst = ENG.cons.setdefault(kind, [])
    for (t2, sh2) in lst:
        if close(sh, sh2):
            if is_zero(som(term - t2)):
                return t2
    lst.append((term, sh))
    return term


def shadow_of(x):
    if isinstance(x, Sym):
        return x.s
    return (float(x),) * len(ENG.env)


def lift(x):
    if isinstance(x, Sym):
        return x.t
    if isinstance(x, (bool, int)):
        return z3.RealVal(int(x))
    if isinstance(x, float):
        if x != x or x in (math.inf, -math.inf):
            raise TypeError('non-finite constant')
        return rv(x)
    raise TypeError(f"cannot lift {type(x)}")


def _sf(f, *ss):
    out = []
    for vals in zip(*ss):
        try:
            out.append(f(*vals))
        except Exception:
            out.append(float('nan'))
    return tuple(out)


def _cmp(f, a, b):
    """(bool, reliable?) per shadow"""
    out = []
    for x, y in zip(a, b):
        if x != x or y != y:
            out.append((False, False))
            continue
        rel = abs(x - y) > 1e-7 * max(1.0, abs(x), abs(y))
        out.append((f(x, y), rel))
    return out


def close(a, b):
    """shadow filter for congruence candidates; a NaN shadow (unknown value) never excludes a candidate"""
    return all((x != x or y != y or abs(x - y) <= 1e-9 * max(1.0, abs(x), abs(y))) for x, y in zip(a, b))


class SymBool:
    __slots__ = ('t', 'sh')

    def __init__(self, t, sh=None):
        self.t = t
        self.sh = sh

    def __bool__(self):
        return ENG.branch(self.t, self.sh)


def _kind_of(x):
    if isinstance(x, Sym):
        return x.kind
    return type(x)


def _kround(r):
    """mode K with opts['float_rounding']: the result of a float +, -, * is only known up to half an ulp
    (standard model, relative 2^-53) - models absorption such as 3.0 - 1e18 == 2.0 - 1e18.  Integer results stay exact."""
    if ENG is None or not ENG.opts.get('float_rounding') or r.kind is not builtins.float:
        return r
    v = ENG.newvar('fl')
    ax = z3.If(r.t >= 0, r.t, -r.t)
    ENG.add_axiom(z3.And(v - r.t <= ax / TWO53, r.t - v <= ax / TWO53), 0)
    out = Sym(v, builtins.float, s=r.s, f=r.f)
    return out


def _arith_kind(a, b, div=False):
    ka, kb = _kind_of(a), _kind_of(b)
    if div:
        return float
    if ka is float or kb is float:
        return float
    return int


POW_BOUND = {2: 1.3407807929942596e154}


def _exp_growth_anchors(t):
    """growth anchors (G) for the exp() applications a power's base depends on: exp(354) < 5.5e153, exp(177) < 7.4e76.
    Added on demand only (they would weigh on every other guard slice)"""
    done = ENG.__dict__.setdefault('_anchored', set())
    names = set()
    stack, seen = [t], set()
    while stack:
        x = stack.pop()
        if x.get_id() in seen:
            continue
        seen.add(x.get_id())
        if z3.is_const(x) and x.decl().kind() == z3.Z3_OP_UNINTERPRETED and x.decl().name().startswith('exp!'):
            names.add(x.decl().name())
        stack.extend(x.children())
    for app in ENG.apps.get('exp', []):
        a, r = app[0], app[1]
        nm = r.decl().name() if z3.is_const(r) else None
        if nm in names and nm not in done:
            done.add(nm)
            ENG.add_axiom(z3.Implies(a <= 354, r <= rv(5.5e153)), 0)
            ENG.add_axiom(z3.Implies(a <= 177, r <= rv(7.4e76)), 0)


def _mentions_exp(t, _memo={}):
    """does the term contain the result of an exp() application?  (only those can reach the overflow range of ** within
    the property's domain; bases that are polynomial in the inputs are bounded by the magnitude argument of C08)"""
    k = t.get_id()
    if k in _memo:
        return _memo[k]
    stack, seen, hit = [t], set(), False
    while stack:
        x = stack.pop()
        i = x.get_id()
        if i in seen:
            continue
        seen.add(i)
        if z3.is_const(x) and x.decl().kind() == z3.Z3_OP_UNINTERPRETED and x.decl().name().startswith('exp!'):
            hit = True
            break
        stack.extend(x.children())
    if len(_memo) > 20000:
        _memo.clear()
    _memo[k] = hit
    return hit


class Sym:
    """symbolic number: z3 Real term + python kind + shadows + interval facts"""
    __slots__ = ('t', 'kind', 's', 'f', 'c')

    def __init__(self, t, kind=float, s=None, f=None):
        self.t = t
        self.c = None      # (A, B) when this value was computed as A - B with A, B >= 0 (cancellation tracking, C08)
        self.kind = kind
        self.f = f if f is not None else INPUT_FACTS.get(str(t), TOP)
        if s is None:
            n = str(t)
            s = tuple(float(e[n]) for e in ENG.env)
        self.s = s

    @property
    def __class__(self):
        return self.kind

    def __deepcopy__(self, memo):
        return self

    def __copy__(self):
        return self

    def __repr__(self):
        return f"Sym<{self.kind.__name__}:{z3.simplify(self.t)}>" if len(str(self.t)) < 80 else f"Sym<{self.kind.__name__}:...>"

    __str__ = __repr__

    def __format__(self, spec):
        return repr(self)

    def __add__(s, o):
        try:
            return _kround(Sym(s.t + lift(o), _arith_kind(s, o), s=_sf(lambda a, b: a + b, s.s, shadow_of(o)), f=f_add(s.f, facts_of(o))))
        except TypeError:
            return NotImplemented

    def __radd__(s, o):
        try:
            return _kround(Sym(lift(o) + s.t, _arith_kind(s, o), s=_sf(lambda a, b: b + a, s.s, shadow_of(o)), f=f_add(s.f, facts_of(o))))
        except TypeError:
            return NotImplemented

    def __sub__(s, o):
        try:
            r = Sym(s.t - lift(o), _arith_kind(s, o), s=_sf(lambda a, b: a - b, s.s, shadow_of(o)), f=f_add(s.f, f_neg(facts_of(o))))
        except TypeError:
            return NotImplemented
        if _sgn(s.f) in ('pos', 'nonneg') and _sgn(facts_of(o)) in ('pos', 'nonneg'):
            r.c = (s.t, lift(o))
        return _kround(r) if (ENG is not None and ENG.opts.get('float_rounding')) else r

    def __rsub__(s, o):
        try:
            return _kround(Sym(lift(o) - s.t, _arith_kind(s, o), s=_sf(lambda a, b: b - a, s.s, shadow_of(o)), f=f_add(facts_of(o), f_neg(s.f))))
        except TypeError:
            return NotImplemented

    def __mul__(s, o):
        try:
            return _kround(Sym(s.t * lift(o), _arith_kind(s, o), s=_sf(lambda a, b: a * b, s.s, shadow_of(o)), f=f_mul(s.f, facts_of(o))))
        except TypeError:
            return NotImplemented

    def __rmul__(s, o):
        try:
            return _kround(Sym(lift(o) * s.t, _arith_kind(s, o), s=_sf(lambda a, b: b * a, s.s, shadow_of(o)), f=f_mul(s.f, facts_of(o))))
        except TypeError:
            return NotImplemented

    def __truediv__(s, o):
        try:
            d = lift(o)
        except TypeError:
            return NotImplemented
        so = shadow_of(o)
        cpair = getattr(o, 'c', None) if isinstance(o, Sym) else None
        if cpair is not None:
            if not hasattr(ENG, 'cancel_divs'):
                ENG.cancel_divs = []
            ENG.cancel_divs.append((cpair[0], cpair[1], d))     # a divisor formed by cancellation (conditioning obligations, C17)
        if cpair is not None and ENG.opts.get('absorption'):
            # the divisor was computed as A - B with A, B >= 0: in floats it is exactly 0 as soon as the real
            # difference is below half an ulp of the operands (absorption / cancellation), not only when A == B
            A_, B_ = cpair
            lim = (A_ + B_) / (2 ** 54)
            if ENG.guard(z3.And(d <= lim, d >= -lim), [(x == 0, x == x) for x in so], 'ZeroDivisionError(cancellation)'):
                raise ZeroDivisionError('float division by zero')
        elif _sgn(facts_of(o)) in ('pos', 'neg'):
            ENG.gfacts = getattr(ENG, 'gfacts', 0) + 1      # nonzero by the proved interval facts: no query
        elif ENG.guard(d == 0, [(x == 0, x == x) for x in so], 'ZeroDivisionError'):
            raise ZeroDivisionError('float division by zero')
        sh = _sf(lambda a, b: a / b, s.s, so)
        sg, nc = canon_sign(s.t)
        if sg > 0:
            q = hashcons('div', nc / d, sh)
        else:
            q = -hashcons('div', nc / d, tuple(-x for x in sh))
        return Sym(q, s=sh, f=f_mul(s.f, f_inv(facts_of(o))))

    def __rtruediv__(s, o):
        try:
            n = lift(o)
        except TypeError:
            return NotImplemented
        if _sgn(s.f) in ('pos', 'neg'):
            ENG.gfacts = getattr(ENG, 'gfacts', 0) + 1
        elif ENG.guard(s.t == 0, [(x == 0, x == x) for x in s.s], 'ZeroDivisionError'):
            raise ZeroDivisionError('float division by zero')
        sh = _sf(lambda a, b: b / a, s.s, shadow_of(o))
        sg, nc = canon_sign(n)
        if sg > 0:
            q = hashcons('div', nc / s.t, sh)
        else:
            q = -hashcons('div', nc / s.t, tuple(-x for x in sh))
        return Sym(q, s=sh, f=f_mul(facts_of(o), f_inv(s.f)))

    def __neg__(s):
        return Sym(-s.t, int if s.kind is bool else s.kind, s=_sf(lambda a: -a, s.s), f=f_neg(s.f))

    def __pos__(s):
        return s

    def __abs__(s):
        # sign known from the proved interval facts (range lemmas): no fork, no query
        sg = _sgn(s.f)
        if sg in ('pos', 'nonneg'):
            return s
        if sg in ('neg', 'nonpos'):
            return -s
        # fork on the sign: keeps arguments of the primitives ITE-free
        if ENG.opts.get('abs', 'fork') == 'fork':
            if ENG.branch(s.t >= 0, [(x >= 0, abs(x) > 1e-9) for x in s.s]):
                return s
            return -s
        return Sym(z3.If(s.t >= 0, s.t, -s.t), s.kind, s=_sf(abs, s.s), f=f_max(s.f, f_neg(s.f)))

    def __pow__(s, n):
        # spellings a rewrite of the library might use for the operations it has today (x ** 0.5 for math.sqrt(x),
        # x ** -1 for 1 / x, x ** 2.0 for x ** 2): mapped onto the modelled operations, exact over the reals
        if type(n) is builtins.float and n == 0.5:
            return SymMath().sqrt(s)
        if type(n) is builtins.float and n == -0.5:
            return 1.0 / SymMath().sqrt(s)
        if type(n) is builtins.float and n.is_integer() and abs(n) <= 16:
            r = s ** builtins.int(n)
            return Sym(r.t, builtins.float, s=r.s, f=r.f) if isinstance(r, Sym) else r
        if isinstance(n, builtins.int) and not isinstance(n, bool) and -16 <= n < 0:
            return 1.0 / (s ** (-n))
        if isinstance(n, int) and not isinstance(n, bool) and n >= 0:
            if n >= 2 and ENG is not None and ENG.opts.get('pow_overflow') is not None and s.kind is builtins.float and _mentions_exp(s.t):
                # float ** int raises OverflowError when the result leaves the double range (C08); the extra constraints
                # (opts['pow_overflow']: the numeric range of beta the property states) are part of the guard condition
                bound = POW_BOUND.get(n) or (1.7976931348623157e308 ** (1.0 / n)) * (1 - 1e-12)
                lo, hi = s.f[0], s.f[2]
                if not (lo is not None and hi is not None and builtins.max(abs(lo), abs(hi)) < bound):
                    _exp_growth_anchors(s.t)
                    cond = z3.And(z3.Or(s.t > rv(bound), s.t < -rv(bound)), *ENG.opts['pow_overflow'])
                    if ENG.guard(cond, [(abs(v) > bound, v == v) for v in s.s], f'OverflowError(** {n})'):
                        raise OverflowError("(34, 'Numerical result out of range')")
                else:
                    ENG.gfacts = getattr(ENG, 'gfacts', 0) + 1
            r = z3.RealVal(1)
            for _ in range(n):
                r = r * s.t
            ff = fconst(1.0)
            for _ in range(n):
                ff = f_mul(ff, s.f)
            if n % 2 == 0 and n > 0:
                lo = ff[0]
                if lo is None or lo < 0:
                    # even power is nonnegative; strictly positive if s is nonzero
                    nz = _sgn(s.f) in ('pos', 'neg')
                    ff = (0.0, nz, ff[2], ff[3])
            return Sym(r, s.kind if s.kind is not bool else int, s=_sf(lambda a: a ** n, s.s), f=ff)
        raise TypeError('pow: only concrete non-negative integer exponents are modelled')

    def __lt__(s, o):
        try:
            return SymBool(s.t < lift(o), _cmp(lambda a, b: a < b, s.s, shadow_of(o)))
        except TypeError:
            return NotImplemented

    def __le__(s, o):
        try:
            return SymBool(s.t <= lift(o), _cmp(lambda a, b: a <= b, s.s, shadow_of(o)))
        except TypeError:
            return NotImplemented

    def __gt__(s, o):
        try:
            return SymBool(s.t > lift(o), _cmp(lambda a, b: a > b, s.s, shadow_of(o)))
        except TypeError:
            return NotImplemented

    def __ge__(s, o):
        try:
            return SymBool(s.t >= lift(o), _cmp(lambda a, b: a >= b, s.s, shadow_of(o)))
        except TypeError:
            return NotImplemented

    def __eq__(s, o):
        try:
            return SymBool(s.t == lift(o), [(False, r) for (_, r) in _cmp(lambda a, b: a == b, s.s, shadow_of(o))])
        except TypeError:
            return NotImplemented

    def __ne__(s, o):
        try:
            return SymBool(s.t != lift(o), [(True, r) for (_, r) in _cmp(lambda a, b: a != b, s.s, shadow_of(o))])
        except TypeError:
            return NotImplemented

    def __bool__(s):
        return ENG.branch(s.t != 0, [(x != 0, abs(x) > 1e-9) for x in s.s])

    __hash__ = None


# --------------------------------------------------------------------------
# transcendental primitives
# --------------------------------------------------------------------------
_N = NormalDist()


def _cdf_true(x):
    return 0.5 * math.erfc(-x / math.sqrt(2))


REAL = {'exp': math.exp, 'sqrt': math.sqrt, 'cdf': _cdf_true, 'pdf': _N.pdf, 'log': math.log}
NEG_RULE = {'exp': lambda r: 1 / r, 'cdf': lambda r: 1 - r, 'pdf': lambda r: r}
NEG_SH = {'exp': lambda v: 1 / v, 'cdf': lambda v: 1 - v, 'pdf': lambda v: v}


def same(a, b, neg=False):
    d = som((a + b) if neg else (a - b))
    if z3.is_rational_value(d):
        return d.numerator_as_long() == 0
    return ENG.valid((a + b == 0) if neg else (a == b), timeout=ENG.opts.get('cong_timeout', 1500))


def _sqrt_out(v, widen):
    """float square root of an interval endpoint, rounded outwards unless it is exact"""
    h = v ** 0.5
    if Fraction(h) * Fraction(h) == Fraction(v):
        return h
    return widen(h)


def uf_app(name, argsym, mk_axioms, rf=None):
    lst = ENG.apps.setdefault(name, [])
    arg = som(argsym.t)
    ash = argsym.s
    for (a2, r2, sh2, rsh2, rf2) in lst:
        if close(ash, sh2):
            if same(arg, a2):
                ENG.reuse += 1
                return Sym(r2, s=rsh2, f=rf2)
        if name in NEG_RULE and not (name == 'exp' and ENG.opts.get('underflow')) and close(ash, tuple(-x for x in sh2)):
            if same(arg, a2, neg=True):
                ENG.reuse += 1
                if name == 'exp':
                    nf = f_inv(rf2)
                elif name == 'cdf':
                    nf = f_add(fconst(1.0), f_neg(rf2))
                else:
                    nf = rf2
                return Sym(NEG_RULE[name](r2), s=_sf(NEG_SH[name], rsh2), f=nf)
    # relational hints declared by two-run harnesses (C16): each is a true identity of the
    # mathematical function, applied only when its side condition is established syntactically
    for hint in ENG.opts.get('hints', ()):
        h = hint(name, argsym, arg, lst)
        if h is not None:
            ENG.reuse += 1
            return h
    res = ENG.newvar(name)
    af = argsym.f
    if rf is None:
        uf_ = bool(ENG.opts.get('underflow'))
        if name == 'exp':
            strict = (not uf_) or (af[0] is not None and af[0] > UF_EXP)
            rf = (0.0, strict, 1.0 if (af[2] is not None and af[2] <= 0) else None, False)
        elif name == 'sqrt':
            hi = None if af[2] is None else _sqrt_out(af[2], _up)
            lo = 0.0 if (af[0] is None or af[0] <= 0) else _sqrt_out(af[0], _down)
            rf = (lo, _sgn(af) == 'pos' if lo == 0.0 else af[1], hi, af[3] if hi is not None else False)
        elif name == 'cdf':
            rf = (0.0, (not uf_) or (af[0] is not None and af[0] > UF_CDF), 1.0, not uf_)
        elif name == 'pdf':
            rf = (0.0, (not uf_) or (af[0] is not None and af[2] is not None and af[0] > -UF_PDF and af[2] < UF_PDF), 0.4, True)
        else:
            rf = TOP
    ENG.lemmas[res.decl().name()] = (res, rf, len(ENG.axioms), len(str(arg)))
    rsh = _sf(REAL[name], ash) if name in REAL else None
    mk_axioms(arg, res, [(a, r) for (a, r, _, _, _) in lst])
    ENG.lemmas[res.decl().name()] += (len(ENG.axioms),)
    lst.append((arg, res, ash, rsh, rf))
    return Sym(res, s=rsh, f=rf)


def uf_app_n(name, args, consts=(), rf=TOP, axioms=None, shadow=None):
    """multi-argument uninterpreted application (gamma callback): Ackermannised, congruence by SOM/solver equality"""
    lst = ENG.apps.setdefault(name, [])
    terms = [som(lift(a)) for a in args]
    shs = [shadow_of(a) for a in args]
    rsh = _sf(shadow, *shs) if shadow is not None else tuple(float('nan') for _ in ENG.env)
    for (c2, t2, s2, r2) in lst:
        if c2 != tuple(consts):
            continue
        if all(close(x, y) for x, y in zip(shs, s2)) and all(same(x, y) for x, y in zip(terms, t2)):
            ENG.reuse += 1
            return Sym(r2, s=rsh, f=rf)
    res = ENG.newvar(name)
    ENG.lemmas[res.decl().name()] = (res, rf, len(ENG.axioms), 10 ** 6)
    for fml in f_formulas(res, rf):
        ENG.add_axiom(fml, 0)
    if axioms:
        axioms(res)
    ENG.lemmas[res.decl().name()] += (len(ENG.axioms),)
    lst.append((tuple(consts), terms, shs, res))
    return Sym(res, s=rsh, f=rf)


_rel_cache = {}


def _derived_vars(a):
    k = a.get_id()
    hit = _rel_cache.get(k)
    if hit is not None and hit[0].eq(a):
        return hit[1]
    vs = frozenset(v for v in Engine.vars_of(a, set()) if '!' in v)
    _rel_cache[k] = (a, vs)
    return vs


def related(a, a2):
    """relevance filter for the pairwise T1 axioms: two arguments can only be ordered against each
    other if they share a derived quantity (e.g. the same sqrt denominator) or one has none.
    Leaving axioms out only weakens the assumptions, so `unsat` verdicts stay valid."""
    if ENG.opts.get('no_t1'):
        return False      # guard-only runs (C08): the pairwise axioms are never needed, only range/definition axioms
    if not ENG.opts.get('t1_filter', True):
        return True
    va, vb = _derived_vars(a), _derived_vars(a2)
    return (not va) or (not vb) or bool(va & vb)


def hint_sqrt_scale(kname):
    """sqrt(k^2 * a2) = k * sqrt(a2) for the declared scale k > 0"""
    def hint(name, argsym, arg, lst):
        if name != 'sqrt':
            return None
        k = z3.Real(kname)
        ksh = tuple(float(e[kname]) for e in ENG.env)
        for (a2, r2, sh2, rsh2, rf2) in lst:
            if close(argsym.s, tuple(x * kk * kk for x, kk in zip(sh2, ksh))) and is_zero(som(arg - k * k * a2)):
                kf = INPUT_FACTS.get(kname, TOP)
                return Sym(k * r2, s=tuple(kk * x for kk, x in zip(ksh, rsh2)), f=f_mul(kf, rf2))
        return None
    return hint


def hint_exp_aligned(state):
    """exp(a) = exp(a2) * exp(a - a2) against the aligned application of the other run:
    state = {'mark': number of exp applications created by the first run, 'j': counter}"""
    def hint(name, argsym, arg, lst):
        if name != 'exp' or state.get('mark') is None or state.get('busy'):
            return None
        for (ac, symc) in state.setdefault('cache', []):
            if close(argsym.s, symc[1]) and is_zero(som(arg - ac)):
                return symc[0]
        j = state['j']
        if j >= state['mark'] or j >= len(lst):
            return None
        a2, r2, sh2, rsh2, rf2 = lst[j]
        state['j'] = j + 1
        d = Sym(som(arg - a2), s=tuple(x - y for x, y in zip(argsym.s, sh2)))
        state['busy'] = True
        try:
            e = uf_app('exp', d, ax_exp)
        finally:
            state['busy'] = False
        out = Sym(r2 * e.t, s=tuple(x * y for x, y in zip(rsh2, e.s)), f=f_mul(rf2, e.f))
        state['cache'].append((arg, (out, argsym.s)))
        return out
    return hint


def ax_sqrt(a, r, lst):
    ENG.add_axiom(r >= 0, 0)
    ENG.add_axiom(r * r == a, 0)


# float underflow thresholds (opts['underflow']): below them the float result may be exactly 0
UF_EXP, UF_CDF, UF_PDF = -745.0, -38.4, 38.5


def _pos_axiom(a, r, thr, two_sided=False):
    """r > 0 -- or, when float underflow is modelled (C08), r >= 0 and r > 0 only above the underflow threshold"""
    if not ENG.opts.get('underflow'):
        ENG.add_axiom(r > 0, 0)
        return
    ENG.add_axiom(r >= 0, 0)
    if two_sided:
        ENG.add_axiom(z3.Implies(z3.And(a < rv(thr), a > rv(-thr)), r > 0), 0)
    else:
        ENG.add_axiom(z3.Implies(a > rv(thr), r > 0), 0)


def ax_exp(a, r, lst):
    A = ENG.add_axiom
    _pos_axiom(a, r, UF_EXP)
    if ENG.opts.get('underflow'):
        # computed values (C08): monotone, but not strictly - two arguments an ulp apart, or both beyond the
        # saturation / underflow threshold, give the same double
        A(z3.Implies(a < 0, r <= 1))
        A(z3.Implies(a > 0, r >= 1))
        A(z3.Implies(a == 0, r == 1))
        for (a2, r2) in lst:
            if not related(a, a2):
                continue
            A(z3.Implies(a < a2, r <= r2))
            A(z3.Implies(a > a2, r >= r2))
            A(z3.Implies(a == a2, r == r2))
        return
    A(z3.Implies(a < 0, r < 1))
    A(z3.Implies(a > 0, r > 1))
    A(z3.Implies(a == 0, r == 1))
    for (a2, r2) in lst:
        if not related(a, a2):
            continue
        A(z3.Implies(a < a2, r < r2))
        A(z3.Implies(a > a2, r > r2))
        A(z3.Implies(a == a2, r == r2))


def ax_cdf(a, r, lst):
    A = ENG.add_axiom
    _pos_axiom(a, r, UF_CDF)
    A(r < 1, 0) if not ENG.opts.get('underflow') else A(r <= 1, 0)
    if ENG.opts.get('underflow'):
        A(z3.Implies(a == 0, 2 * r == 1))
        A(z3.Implies(a > 0, 2 * r >= 1))
        A(z3.Implies(a < 0, 2 * r <= 1))
        for (a2, r2) in lst:
            if not related(a, a2):
                continue
            A(z3.Implies(a < a2, r <= r2))
            A(z3.Implies(a > a2, r >= r2))
            A(z3.Implies(a == a2, r == r2))
        return
    A(z3.Implies(a == 0, 2 * r == 1))
    A(z3.Implies(a > 0, 2 * r > 1))
    A(z3.Implies(a < 0, 2 * r < 1))
    for (a2, r2) in lst:
        if not related(a, a2):
            continue
        A(z3.Implies(a < a2, r < r2))
        A(z3.Implies(a > a2, r > r2))
        A(z3.Implies(a == a2, r == r2))
        # Phi(a) + Phi(a2) vs 1  <=>  a + a2 vs 0
        A(z3.Implies(a + a2 > 0, r + r2 > 1))
        A(z3.Implies(a + a2 < 0, r + r2 < 1))
        A(z3.Implies(a + a2 == 0, r + r2 == 1))


def ax_pdf(a, r, lst):
    A = ENG.add_axiom
    _pos_axiom(a, r, UF_PDF, two_sided=True)
    A(r * 5 < 2, 0)
    for (a2, r2) in lst:
        A(z3.Implies(z3.Or(a == a2, a + a2 == 0), r == r2))


class SymMath:
    """stands in for the `math` module inside the model files"""

    def __getattr__(self, n):
        return getattr(math, n)

    def sqrt(self, x):
        if isinstance(x, Sym):
            if _sgn(x.f) in ('pos', 'nonneg'):
                ENG.gfacts = getattr(ENG, 'gfacts', 0) + 1
            elif ENG.guard(x.t < 0, [(v < 0, v == v) for v in x.s], 'ValueError(sqrt)'):
                raise ValueError('math domain error')
            return uf_app('sqrt', x, ax_sqrt)
        return math.sqrt(x)

    # erf/erfc of a symbolic argument belong to the Phi family: erfc(z) = 2*Phi(-sqrt(2) z).
    # sqrt(2) is the same float constant the code divides by, so that  -(-x/c)*c  is x after normalisation.
    def erfc(self, z):
        if isinstance(z, Sym):
            return 2 * uf_app('cdf', -(z * math.sqrt(2.0)), ax_cdf)
        return math.erfc(z)

    def erf(self, z):
        if isinstance(z, Sym):
            return 2 * uf_app('cdf', z * math.sqrt(2.0), ax_cdf) - 1
        return math.erf(z)

    # plausible stdlib helpers a change to the library might reach for; exact real-number semantics
    # numerically motivated variants of the same mathematical functions
    def expm1(self, x):
        return self.exp(x) - 1 if isinstance(x, Sym) else math.expm1(x)

    def hypot(self, *xs):
        if any(isinstance(x, Sym) for x in xs):
            t = 0
            for x in xs:
                t = t + x * x
            return self.sqrt(t)
        return math.hypot(*xs)

    def fsum(self, xs):
        xs = list(xs)
        if any(isinstance(x, Sym) for x in xs):
            t = 0
            for x in xs:
                t = t + x
            return t
        return math.fsum(xs)

    def log(self, x, *base):
        if isinstance(x, Sym) and not base:
            return sym_log(x)
        return math.log(x, *base)

    def log1p(self, x):
        return sym_log(1 + x) if isinstance(x, Sym) else math.log1p(x)

    # a symbolic number stands for a finite real
    def isfinite(self, x):
        return True if isinstance(x, Sym) else math.isfinite(x)

    def isnan(self, x):
        return False if isinstance(x, Sym) else math.isnan(x)

    def isinf(self, x):
        return False if isinstance(x, Sym) else math.isinf(x)

    def isclose(self, a, b, rel_tol=1e-09, abs_tol=0.0):
        if not (isinstance(a, Sym) or isinstance(b, Sym)):
            return math.isclose(a, b, rel_tol=rel_tol, abs_tol=abs_tol)
        ta, tb = lift(a), lift(b)
        d = z3.If(ta - tb >= 0, ta - tb, tb - ta)
        aa = z3.If(ta >= 0, ta, -ta)
        ab = z3.If(tb >= 0, tb, -tb)
        m = z3.If(aa >= ab, aa, ab)
        cond = z3.Or(ta == tb, d <= rv(rel_tol) * m, d <= rv(abs_tol))
        sh = [(math.isclose(x, y, rel_tol=rel_tol, abs_tol=abs_tol), abs(x - y) > 1e-6 * max(1.0, abs(x)) or x == y)
              for x, y in zip(shadow_of(a), shadow_of(b))]
        return ENG.branch(cond, sh)

    def fabs(self, x):
        return abs(x) if isinstance(x, Sym) else math.fabs(x)

    def pow(self, x, n):
        if isinstance(x, Sym) and not isinstance(n, Sym):
            return x ** n
        if isinstance(x, Sym) or isinstance(n, Sym):
            raise TypeError('math.pow with a symbolic exponent is not modelled')
        return math.pow(x, n)

    def prod(self, it, start=1):
        r = start
        for x in it:
            r = r * x
        return r

    def copysign(self, a, b):
        if not (isinstance(a, Sym) or isinstance(b, Sym)):
            return math.copysign(a, b)
        mag = abs(a) if isinstance(a, Sym) else math.fabs(a)
        if isinstance(b, Sym):
            neg = ENG.branch(b.t < 0, [(v < 0, abs(v) > 1e-9) for v in b.s])
        else:
            neg = math.copysign(1.0, b) < 0
        return -mag if neg else mag

    def floor(self, x):
        return sym_int(x, 'floor') if isinstance(x, Sym) else math.floor(x)

    def ceil(self, x):
        return sym_int(x, 'ceil') if isinstance(x, Sym) else math.ceil(x)

    def trunc(self, x):
        return sym_int(x, 'trunc') if isinstance(x, Sym) else math.trunc(x)

    def exp(self, x):
        if isinstance(x, Sym):
            if ENG.guard(x.t > rv(709.78), [(v > 709.78, v == v) for v in x.s], 'OverflowError(exp)'):
                raise OverflowError('math range error')
            return uf_app('exp', x, ax_exp)
        return math.exp(x)


def ax_log(a, r, lst):
    A = ENG.add_axiom
    A(z3.Implies(a == 1, r == 0))
    A(z3.Implies(a > 1, r > 0))
    A(z3.Implies(a < 1, r < 0))
    for (a2, r2) in lst:
        A(z3.Implies(a < a2, r < r2))
        A(z3.Implies(a > a2, r > r2))
        A(z3.Implies(a == a2, r == r2))
    # inverse of exp: log(exp(u)) = u for the exp applications of this path
    for app in ENG.apps.get('exp', []):
        A(z3.Implies(a == app[1], r == app[0]))


def sym_log(x):
    if ENG.guard(x.t <= 0, [(v <= 0, v == v) for v in x.s], 'ValueError(log)'):
        raise ValueError('math domain error')
    return uf_app('log', x, ax_log)


def _all_int_kind(a):
    """kind of max/min: int only when the float-rounding model is on (mode K) and every operand is int-kinded"""
    if ENG is None or not ENG.opts.get('float_rounding'):
        return builtins.float
    return builtins.int if all(_kind_of(x) in (builtins.int, builtins.bool) for x in a) else builtins.float


def sym_max(*a, **kw):
    if len(a) == 1 and not kw:
        a = tuple(a[0])
    if kw or not any(isinstance(x, Sym) for x in a):
        return builtins.max(*a, **kw)
    r = hashcons('arith', lift(a[0]), shadow_of(a[0]))
    sh = shadow_of(a[0])
    ff = facts_of(a[0])
    for x in a[1:]:
        xt = hashcons('arith', lift(x), shadow_of(x))
        r = z3.If(xt > r, xt, r)
        sh = _sf(builtins.max, sh, shadow_of(x))
        ff = f_max(ff, facts_of(x))
    return Sym(r, _all_int_kind(a), s=sh, f=ff)


def sym_min(*a, **kw):
    if len(a) == 1 and not kw:
        a = tuple(a[0])
    if kw or not any(isinstance(x, Sym) for x in a):
        return builtins.min(*a, **kw)
    r = hashcons('arith', lift(a[0]), shadow_of(a[0]))
    sh = shadow_of(a[0])
    ff = facts_of(a[0])
    for x in a[1:]:
        xt = hashcons('arith', lift(x), shadow_of(x))
        r = z3.If(xt < r, xt, r)
        sh = _sf(builtins.min, sh, shadow_of(x))
        ff = f_min(ff, facts_of(x))
    return Sym(r, _all_int_kind(a), s=sh, f=ff)


def sym_int(x, how='trunc'):
    """int() / floor / ceil / trunc of a symbolic number: a fresh integer-valued term with the exact relation"""
    if not isinstance(x, Sym):
        return builtins.int(x) if how == 'trunc' else {'floor': math.floor, 'ceil': math.ceil}[how](x)
    if x.kind in (builtins.int, builtins.bool) and how in ('trunc', 'floor', 'ceil'):
        return Sym(x.t, builtins.int, s=x.s, f=x.f)
    r = ENG.newvar('int')
    ENG.add_axiom(z3.IsInt(r), 0)
    if how == 'floor':
        ENG.add_axiom(z3.And(r <= x.t, x.t < r + 1), 0)
        f = math.floor
    elif how == 'ceil':
        ENG.add_axiom(z3.And(r - 1 < x.t, x.t <= r), 0)
        f = math.ceil
    else:
        ENG.add_axiom(z3.If(x.t >= 0, z3.And(r <= x.t, x.t < r + 1), z3.And(r - 1 < x.t, x.t <= r)), 0)
        f = math.trunc
    return Sym(r, builtins.int, s=_sf(lambda v: float(f(v)), x.s))


TWO53 = 2 ** 53


def sym_to_float(x):
    """float() of a symbolic number.  Exact for float kinds and for integers up to 2^53; above that the result
    is only known to be within half an ulp (relative 2^-53) of the integer - an over-approximation of rounding."""
    if x.kind is builtins.float:
        return Sym(x.t, builtins.float, s=x.s, f=x.f)
    big = ENG.branch(z3.Or(x.t > TWO53, x.t < -TWO53), [(abs(v) > TWO53, True) for v in x.s])
    if not big:
        return Sym(x.t, builtins.float, s=x.s, f=x.f)
    r = ENG.newvar('rounded')
    ax = z3.If(x.t >= 0, x.t, -x.t)
    ENG.add_axiom(z3.And(r - x.t <= ax / TWO53, x.t - r <= ax / TWO53), 0)
    return Sym(r, builtins.float, s=_sf(lambda v: float(v), x.s))


class _IntMeta(type):
    def __instancecheck__(cls, x):
        return isinstance(x, builtins.int)

    def __subclasscheck__(cls, c):
        return issubclass(c, builtins.int)

    def __call__(cls, *a, **kw):
        if len(a) == 1 and not kw and isinstance(a[0], Sym):
            return sym_int(a[0], 'trunc')
        return builtins.int(*a, **kw)


class sym_int_type(metaclass=_IntMeta):
    pass


def sym_round(x, nd=None):
    if isinstance(x, Sym) and nd is None:
        r = ENG.newvar('int')
        ENG.add_axiom(z3.IsInt(r), 0)
        ENG.add_axiom(z3.And(2 * (r - x.t) <= 1, 2 * (x.t - r) <= 1), 0)   # ties: either neighbour (over-approximation of banker's rounding)
        return Sym(r, builtins.int, s=_sf(lambda v: float(round(v)), x.s))
    if isinstance(x, Sym) and type(nd) is builtins.int and -20 <= nd <= 20:
        # round(x, nd) over the reals: some r with r * 10**nd an integer and |r - x| * 10**nd <= 1/2 (ties: either
        # neighbour - an over-approximation of round-half-even; the float nearest to that decimal is outside mode R)
        scale = z3.RealVal(10 ** nd) if nd >= 0 else z3.RealVal(1) / z3.RealVal(10 ** -nd)
        k = ENG.newvar('int')
        r = ENG.newvar('rnd')
        ENG.add_axiom(z3.IsInt(k), 0)
        ENG.add_axiom(r * scale == k, 0)
        ENG.add_axiom(z3.And(2 * (k - x.t * scale) <= 1, 2 * (x.t * scale - k) <= 1), 0)
        return Sym(r, builtins.float, s=_sf(lambda v: builtins.round(v, nd), x.s))
    if isinstance(x, Sym):
        raise TypeError('round(x, ndigits) of a symbolic number is not modelled for this ndigits')
    return builtins.round(x) if nd is None else builtins.round(x, nd)


class _FloatMeta(type):
    def __instancecheck__(cls, x):
        return isinstance(x, builtins.float)

    def __subclasscheck__(cls, c):
        return issubclass(c, builtins.float)

    def __call__(cls, x=0.0):
        if not isinstance(x, Sym) and type(x) is not Sym:
            return builtins.float(x)
        if x.kind is builtins.float or ENG.opts.get('float_exact', True) and not ENG.opts.get('int_rounding'):
            return Sym(x.t, builtins.float, s=x.s, f=x.f)
        return sym_to_float(x)


class sym_float(metaclass=_FloatMeta):
    pass


class StubNormal:
    """stands in for openskill.models.weng_lin.common._normal"""

    def cdf(self, x):
        if isinstance(x, Sym):
            return uf_app('cdf', x, ax_cdf)
        return _cdf_true(x)

    def pdf(self, x):
        if isinstance(x, Sym):
            return uf_app('pdf', x, ax_pdf)
        return _N.pdf(x)

    def inv_cdf(self, x):
        if isinstance(x, Sym):
            raise TypeError('inv_cdf of a symbolic argument is not modelled')
        return _N.inv_cdf(x)


MODEL_MODULES = ('plackett_luce', 'bradley_terry_full', 'bradley_terry_part',
                 'thurstone_mosteller_full', 'thurstone_mosteller_part')
STUBS = [
    "math (module global of each model file) -> shim: sqrt/exp become Ackermannised applications, rest delegated",
    "openskill.models.weng_lin.common._normal -> stub: cdf/pdf of symbolic arguments become Ackermannised applications; concrete arguments evaluated by statistics.NormalDist",
    "float, max, min as module globals of the model files -> float(Sym) is the identity on the term, max/min build ITE terms",
]


def install():
    import importlib
    C = importlib.import_module('openskill.models.weng_lin.common')
    C._normal = StubNormal()
    if hasattr(C, 'math'):
        C.math = SymMath()
    mods = [importlib.import_module('openskill.models.weng_lin.' + name) for name in MODEL_MODULES]
    for m in mods:
        m.math = SymMath()
    # numeric builtins as module globals (module globals shadow builtins) in every library module
    for m in mods + [C, importlib.import_module('openskill.models.common')]:
        m.max = sym_max
        m.min = sym_min
        m.float = sym_float
        m.int = sym_int_type
        m.round = sym_round
        if not hasattr(m, 'math') or isinstance(getattr(m, 'math'), SymMath):
            m.math = SymMath()


# --------------------------------------------------------------------------
# exploration driver
# --------------------------------------------------------------------------
def iter_paths(run, base, draw, seed=None, max_paths=20000, opts=None, stats=None):
    """Generator over the feasible paths of `run()`: yields (outcome, engine) with
    outcome = ('ok', value) | ('exc', exception).  The caller may stop early."""
    global ENG
    if seed is None:
        seed = int(os.environ.get('VERIF_SEED', '0') or 0)
    rng = random.Random(seed)
    env = [draw(rng) for _ in range(K)] if draw else []
    work = [[]]
    if stats is None:
        stats = {}
    for k in ('nq', 'tq', 'paths', 'aborted', 'exc', 'saved', 'unknown', 'gsaved', 'gassumed', 'reuse', 'fresh'):
        stats.setdefault(k, 0)
    n = 0
    while work:
        prefix = work.pop()
        ENG = Engine(base, prefix, env, opts)
        try:
            out = ('ok', run())
        except Abort:
            stats['aborted'] += 1
            work.extend(ENG.worklist)
            continue
        except Exception as e:  # noqa: BLE001 - exceptions of the code under test are path outcomes
            out = ('exc', e)
            stats['exc'] += 1
        work.extend(ENG.worklist)
        for k in ('nq', 'tq', 'saved', 'unknown', 'gsaved', 'gassumed', 'reuse', 'fresh'):
            stats[k] += getattr(ENG, k)
        stats['paths'] += 1
        n += 1
        eng = ENG
        yield out, eng
        # queries made by the caller on this path's engine after the snapshot above
        if n > max_paths:
            raise RuntimeError('too many paths')


def explore(run, base, draw, seed=None, max_paths=20000, opts=None, keep_exc=True, on_path=None):
    """Run `run()` on every feasible path.  Returns ([(outcome, engine)], stats)."""
    stats = {}
    results = []
    for out, eng in iter_paths(run, base, draw, seed, max_paths, opts, stats):
        results.append((out, eng))
        if on_path is not None:
            on_path(out, eng)
    return results, stats


def model_inputs(model, names):
    """extract float values of the named z3 Real constants from a model"""
    out = {}
    for n in names:
        v = model.eval(z3.Real(n), model_completion=True)
        out[n] = _val(v)
    return out


def _val(v):
    if z3.is_rational_value(v):
        return float(Fraction(v.numerator_as_long(), v.denominator_as_long()))
    if z3.is_algebraic_value(v):
        a = v.approx(30)
        return float(Fraction(a.numerator_as_long(), a.denominator_as_long()))
    if z3.is_int_value(v):
        return v.as_long()
    raise ValueError(f"cannot read value {v}")
