"""C11 -- predict_rank ranks agree with its probabilities and complement predict_draw."""
import itertools

from harness import common as H
from harness import predict as PR

INFO = {
    'level': 'other',
    'explanation': (
        'Two symbolic harnesses on the real predict_rank (sx engine). (rank) Phi is replaced by unconstrained values in (0,1) with only '
        'v_ab + v_ba <= 1 - a superset of what Phi can return - so the real _rank_data/_arg_sort/sorted fork on every order and tie pattern of '
        'the n probabilities; on each path the ranks are concrete ints and z3 (linear arithmetic) decides: one pair per team in input order, '
        'probability in [0,1] and equal to the team\'s own pairwise sum, rank in 1..n, p_i > p_j implies rank_i < rank_j, p_i = p_j implies equal '
        'ranks, a team whose probability is maximal has rank 1. (sum) with the real Phi axioms, predict_rank and predict_draw run in one path '
        '(rank assignment stubbed, it does not influence the probabilities): sum of probabilities + draw = 1 for n >= 3, which also needs '
        'Phi(w_ab)+Phi(w_ba) <= 1 so that abs() in predict_draw is the identity.'),
    'bounds': {
        'quick': 'five models; rank clauses n = 2,3,4 (single-player teams and (1,2,1)); sum clause shapes (1,1,1),(1,2,1),(2,2,2),(1,1,1,1)',
        'thorough': '+ rank clauses n = 5; sum clause (1,1,1,1,1),(3,1,2),(2,2,2,2)',
    },
    'outside': ['IEEE rounding', 'rank clauses beyond 5 teams, sum clause beyond 5 teams'],
    'stubs': ['rank harness: the CDF primitive under phi_major (common._normal.cdf, math.erf/erfc) returns a fresh unconstrained value in (0,1) per call (superset of Phi)',
              'sum harness: _rank_data (module global of the model file) replaced by a constant ranking'],
    'axioms': ['T0/T1 for Phi incl. Phi(a)+Phi(b) < 1 <=> a+b < 0 (sum harness)'],
    'assumptions': ['real-number semantics (mode R)'],
}


def jobs(tier):
    out = []
    for key in H.ALL:
        shapes = [(1, 1), (1, 1, 1), (1, 2, 1), (1, 1, 1, 1)]
        if tier == 'thorough':
            shapes.append((1, 1, 1, 1, 1))
        for shape in shapes:
            n = len(shape)
            out.append({'name': f'{key}-rank-{H.shape_str(shape)}', 'mode': 'rank', 'model': key, 'shape': list(shape),
                        'budget': 600 if n < 5 else 3000, 'cost': {2: 1, 3: 5, 4: 60, 5: 2000}[n]})
        shapes = [(1, 1, 1), (1, 2, 1), (2, 2, 2), (1, 1, 1, 1)]
        if tier == 'thorough':
            shapes += [(1, 1, 1, 1, 1), (3, 1, 2), (2, 2, 2, 2)]
        for shape in shapes:
            out.append({'name': f'{key}-sum-{H.shape_str(shape)}', 'mode': 'sum', 'model': key, 'shape': list(shape),
                        'budget': 600 if tier == 'quick' else 1800, 'cost': 30 * len(shape)})
    return out


def rank_problems(n, res, probs_expected=None, cmp=None):
    """concrete clauses on a predict_rank result; cmp(i, j) -> -1/0/1 ordering of the probabilities"""
    probs = []
    if len(res) != n:
        return [f'{len(res)} pairs for {n} teams']
    ranks = [r[0] for r in res]
    for k, r in enumerate(ranks):
        if not (isinstance(r, int) and not isinstance(r, bool)) or not (1 <= r <= n):
            probs.append(f'rank {r!r} of team {k} is not an int in 1..{n}')
    if probs:
        return probs
    for i, j in itertools.permutations(range(n), 2):
        c = cmp(i, j)
        if c > 0 and not ranks[i] < ranks[j]:
            probs.append(f'p[{i}] > p[{j}] but ranks {ranks[i]}, {ranks[j]}')
        if c == 0 and ranks[i] != ranks[j]:
            probs.append(f'p[{i}] == p[{j}] but ranks {ranks[i]}, {ranks[j]}')
    for i in range(n):
        if all(cmp(i, j) >= 0 for j in range(n) if j != i) and ranks[i] != 1:
            probs.append(f'team {i} has a maximal probability but rank {ranks[i]}')
    return probs


def _mixed_games(shape, count=120):
    """alternative witnesses for a sat rank obligation: games with close totals and very different sigmas (the free-value
    abstraction cannot say which real game realises a pattern; these are tried on the real code after the equal-sigma one)"""
    import random
    rng = random.Random(11)
    out = [{'teams': [[(30.0 / k, 8.0 / k ** 0.5)] * k if i == 0 else [((30.0 if i == 1 else 28.0 - 0.5 * i) / k, 0.5 / k ** 0.5)] * k for i, k in enumerate(shape)]}]
    # nearly level teams: one team ahead of an otherwise identical one by a gap far below any sensible tolerance but not zero
    # (a tie detection that is not exact equality of the returned probabilities shows only here)
    for eps in (1e-6, 1e-8, 1e-10, 1e-12):
        for lead in range(len(shape)):
            out.append({'teams': [[((25.0 + (eps if i == lead else 0.0)) / k, 8.0 / k ** 0.5)] + [(25.0 / k, 8.0 / k ** 0.5)] * (k - 1)
                                  for i, k in enumerate(shape)]})
            out.append({'teams': [[((25.0 + (eps if i == lead else 0.0) - (3.0 if i == (lead + 1) % len(shape) and len(shape) > 2 else 0.0)) / k,
                                    8.0 / k ** 0.5)] + [(25.0 / k, 8.0 / k ** 0.5)] * (k - 1) for i, k in enumerate(shape)]})
    for _ in range(count):
        g = []
        for k in shape:
            mu = rng.choice([25.0, 26.0, 27.0, 28.0, 30.0, 30.0]) + rng.choice([0.0, 0.0, 0.3, -0.4])
            sg = rng.choice([0.3, 0.5, 2.0, 8.0, 8.0, 12.0])
            g.append([(mu / k, sg / k ** 0.5)] * k)
        out.append({'teams': g})
    return out


def run_rank(spec, ctx):
    import z3
    from sx import core
    core.install()
    key, shape = spec['model'], tuple(spec['shape'])
    n = len(shape)
    Model = H.model_class(key)
    C = __import__('openskill.models.weng_lin.common', fromlist=['x'])
    npairs = n * (n - 1)
    vnames = [f'v{k}' for k in range(npairs)]
    pairs = list(itertools.permutations(range(n), 2))
    base = []
    for k, nm in enumerate(vnames):
        base += [z3.Real(nm) > 0, z3.Real(nm) < 1]
        core.INPUT_FACTS[nm] = core.F(0.0, True, 1.0, True)
    for k, (a, b) in enumerate(pairs):
        if a < b:
            base.append(z3.Real(vnames[k]) + z3.Real(vnames[pairs.index((b, a))]) <= 1)

    class FreeNormal(core.StubNormal):
        def __init__(self):
            self.k = 0

        def cdf(self, x):
            if self.k < len(vnames):
                v = core.Sym(z3.Real(vnames[self.k]))
            else:
                # more CDF evaluations than predict_rank needs (a variant that also consults predict_win, say): further free values
                nm = f'vx{self.k}'
                core.INPUT_FACTS[nm] = core.F(0.0, True, 1.0, True)
                eng_ = core.ENG
                eng_.base += [z3.Real(nm) > 0, z3.Real(nm) < 1]
                v = core.Sym(z3.Real(nm), s=tuple(0.3 + 0.05 * ((self.k + i) % 7) for i in range(len(eng_.env))))
            self.k += 1
            return v

    def draw(rng):
        # shadows: patterns with ties
        lv = [rng.choice([0.1, 0.2, 0.3]) for _ in range(n)]
        e = {}
        for k, (a, b) in enumerate(pairs):
            e[vnames[k]] = min(0.49, max(0.01, 0.25 + (lv[a] - lv[b]) / 2))
        return e

    class FreeMath(core.SymMath):
        """erf/erfc stand-ins so that whatever libm entry point phi_major is built on returns the same free value"""

        def __init__(self, fn):
            self.fn = fn

        def erfc(self, z):
            return 2 * self.fn.cdf(None)

        def erf(self, z):
            return 2 * self.fn.cdf(None) - 1

    def run():
        C._normal = FreeNormal()
        if hasattr(C, 'math'):
            C.math = FreeMath(C._normal)
        m = Model()
        teams = [[m.rating(25.0 + i, 8.0) for _ in range(k)] for i, k in enumerate(shape)]
        return [tuple(x) for x in m.predict_rank(teams)]

    denom = n * (n - 1) / 2
    for (kind, out), eng in core.iter_paths(run, base, draw, opts={'deadline': ctx.deadline, 'branch_timeout': 10000}):
        ctx.paths += 1
        if len(ctx.candidates) >= 2:
            break
        if kind == 'exc':
            ctx.ob(f'path ends in {type(out).__name__}: {out}', 'unknown')
            ctx.add_engine(eng)
            continue
        if ctx.vacuity['checked'] == 0:
            H.vacuity_check(ctx, eng, z3.Real('v0') * 2 == 1)
        res = out
        exp = [sum(z3.Real(vnames[a * (n - 1) + k]) for k in range(n - 1)) / denom for a in range(n)]
        problems = []
        if len(res) == n:
            for a in range(n):
                p = res[a][1]
                if not core.is_zero(core.som(core.lift(p) - exp[a])):
                    r, _ = eng.check(core.lift(p) != exp[a], timeout=20000)
                    if r != 'unsat':
                        problems.append(f'probability at position {a} is not team {a}\'s own pairwise sum')
                r, _ = eng.check(z3.Or(core.lift(p) < 0, core.lift(p) > 1), timeout=20000)
                if r != 'unsat':
                    problems.append(f'probability at position {a} can leave [0,1]')

        # ordering of the probabilities as decided by the solver under the path condition
        decided = [0]

        def possible(f):
            r, _ = eng.check(f, timeout=20000)
            decided[0] += 1
            return r != 'unsat'
        memo = {}

        def rel(i, j):
            if (i, j) not in memo:
                memo[(i, j)] = (possible(exp[i] > exp[j]), possible(exp[i] == exp[j]), possible(exp[i] < exp[j]))
            return memo[(i, j)]
        if not problems:
            ranks = [r[0] for r in res]
            if any(not (type(r) is int and 1 <= r <= n) for r in ranks):
                problems.append(f'ranks {ranks} not ints in 1..{n}')
            else:
                for i, j in itertools.combinations(range(n), 2):
                    gt, eq, lt = rel(i, j)
                    if gt and not ranks[i] < ranks[j]:
                        problems.append(f'p[{i}] > p[{j}] possible on this path but ranks {ranks[i]}, {ranks[j]}')
                    if lt and not ranks[j] < ranks[i]:
                        problems.append(f'p[{j}] > p[{i}] possible on this path but ranks {ranks[j]}, {ranks[i]}')
                    if eq and ranks[i] != ranks[j]:
                        problems.append(f'p[{i}] == p[{j}] possible on this path but ranks {ranks[i]}, {ranks[j]}')
                for i in range(n):
                    if ranks[i] != 1 and possible(z3.And(*[exp[i] >= exp[j] for j in range(n) if j != i])):
                        problems.append(f'team {i} can have a maximal probability on this path but has rank {ranks[i]}')
        nob = max(1, decided[0])  # clause instances actually decided by a solver query on this path
        if not problems:
            ctx.ob('rank clauses on this path', 'unsat',
                   sample={'model': key, 'shape': list(shape), 'ranks': [r[0] for r in res],
                           'path_condition': [str(c) for c in eng.pc][:8]})
            ctx.obligations += nob - 1
            ctx.discharged += nob - 1
        else:
            r, m = eng.check(timeout=20000)
            vals = core.model_inputs(m, vnames) if r == 'sat' else None
            cand = None if vals is None else {'mode': 'rank', 'model': key, 'shape': list(shape), 'v': [vals[x] for x in vnames],
                                              '__alts__': _mixed_games(shape)}
            ctx.ob('rank clauses: ' + problems[0], 'sat' if cand else 'unknown', cand)
        ctx.add_engine(eng)


def run_sum(spec, ctx):
    import importlib
    import z3
    from sx import core
    core.install()
    key, shape = spec['model'], tuple(spec['shape'])
    Model = H.model_class(key)
    importlib.import_module('openskill.models.weng_lin.' + H.MODULE_OF[key])._rank_data = lambda v: list(range(1, len(v) + 1))
    PR.set_pred_facts(shape)
    base = PR.pred_domain(shape)
    mk = H.sym_maker()
    names = PR.pred_names(shape)

    def run_with(mkf):
        m = Model(beta=mkf('beta'))
        r = PR.call(m, 'predict_rank', PR.build_teams(m, shape, mkf))
        d = PR.call(m, 'predict_draw', PR.build_teams(m, shape, mkf))
        return [x[1] for x in r], d

    for (kind, out), eng in core.iter_paths(lambda: run_with(mk), base, PR.pred_draw(shape),
                                            opts={'deadline': ctx.deadline, 'branch_timeout': 20000}):
        ctx.paths += 1
        if ctx.candidates:
            break
        if kind == 'exc':
            ctx.ob(f'path ends in {type(out).__name__}: {out}', 'unknown')
            ctx.add_engine(eng)
            continue
        probs, d = out
        H.validate_shadows(ctx, eng, [probs, d], lambda env: list(run_with(H.float_maker(env))))
        if ctx.vacuity['checked'] == 0:
            H.vacuity_check(ctx, eng, core.lift(d) == 12345)
        tot = sum(core.lift(p) for p in probs) + core.lift(d)
        sample = {'model': key, 'shape': list(shape), 'path_condition': [str(c)[:200] for c in eng.pc][:4]}
        if core.is_zero(core.som(tot - 1)):
            ctx.ob('sum of rank probabilities + draw == 1 (syntactic identity)', 'syntactic', sample=sample)
        else:
            neg = tot != 1
            r, m = eng.check(neg, timeout=60000)
            if r == 'sat':
                cands = [{'mode': 'sum', 'inputs': inp, 'model': key, 'shape': list(shape)}
                         for inp in H.witness_models(eng, neg, names, [z3.Real('beta') == z3.RealVal('25/6')])]
                H.mark_last(cands)
                ctx.ob('sum of rank probabilities + draw == 1', 'sat' if cands else 'unknown', cands, sample=sample)
            else:
                ctx.ob('sum of rank probabilities + draw == 1', r, sample=sample)
        ctx.add_engine(eng)


def run_job(spec, ctx):
    if spec['mode'] == 'rank':
        run_rank(spec, ctx)
    else:
        run_sum(spec, ctx)


def replay(cand):
    key, shape = cand['model'], tuple(cand['shape'])
    n = len(shape)
    Model = H.model_class(key)
    if cand['mode'] == 'sum':
        inp = cand['inputs']
        m, teams = PR.float_teams(key, shape, inp)
        r = m.predict_rank(teams)
        m, teams = PR.float_teams(key, shape, inp)
        d = m.predict_draw(teams)
        tot = sum(x[1] for x in r) + d
        return {'violated': bool(abs(tot - 1) > 1e-9), 'key': f'{key}:sum:{H.shape_str(shape)}',
                'detail': f'C11 {H.MODEL_NAMES[key]} shape={shape} inputs={inp}: sum(predict_rank probabilities) + predict_draw = {tot!r}'}
    # rank clauses: realise the order/tie pattern of the witness probabilities with real teams
    v = cand['v']
    p = [sum(v[a * (n - 1):(a + 1) * (n - 1)]) for a in range(n)]
    levels = sorted(set(p))
    m = Model()
    if cand.get('teams'):
        teams = [[m.rating(a, b) for (a, b) in t] for t in cand['teams']]
    else:
        teams = [[m.rating((20.0 + 2.5 * levels.index(p[i])) / k, 4.0 / k ** 0.5) for _ in range(k)] for i, k in enumerate(shape)]
    res = [tuple(x) for x in m.predict_rank(teams)]
    pr = [x[1] for x in res]

    def cmp(i, j):
        return (pr[i] > pr[j]) - (pr[i] < pr[j])
    problems = rank_problems(n, res, cmp=cmp)
    if any(not (0 <= x <= 1) for x in pr):
        problems.append('probability outside [0,1]')
    pat = ''.join(str(levels.index(x)) for x in p)
    return {'violated': bool(problems), 'key': f'{key}:rank:{H.shape_str(shape)}:pattern={pat}',
            'detail': f'C11 {H.MODEL_NAMES[key]}.predict_rank on teams with strength pattern {pat} (mu,sigma)='
                      f'{[[(q.mu, q.sigma) for q in t] for t in teams]} returns {res}: ' + '; '.join(problems[:3])}
