"""C18 -- rating comparison operators order players exactly as ordinal() does."""
import operator

from harness import common as H

INFO = {
    'level': 'other',
    'explanation': (
        'Mode F of the sx engine: the real comparison dunders and ordinal() of each of the five rating classes run on exact IEEE-754 binary64 '
        'proxies (z3 FloatingPoint theory, round-to-nearest-even); mu and sigma of both operands range over ALL finite doubles (negatives, zeros, '
        'subnormals, equal ordinals with different (mu, sigma) are found by the solver, not listed). Per class, operator and path z3 decides '
        'path => (result <=> spec) with spec built from fp.sub(mu, fp.mul(3.0, sigma)); ordinal(z) with symbolic z equals mu - z*sigma in the same '
        'arithmetic; == holds exactly when both fields are fp-equal. Foreign operands are a lazy kind proxy over the other four rating classes, '
        'None, int, float, str, tuple, list: order operators must raise ValueError, == is False, != is True. sorted(): 3 (thorough 4) symbolic '
        'ratings through the real sorted(); on every path the output is monotone in ordinal().'),
    'bounds': {
        'quick': '5 rating classes x {<, <=, >, >=, ==, !=} over all finite doubles, on fresh objects, on objects that were used and then updated in place, and on two snapshots of one player (same id); ordinal(z) symbolic; 10 foreign kinds; sorted() of 3',
        'thorough': '+ sorted() of 4',
    },
    'outside': ['NaN / infinite mu or sigma', 'foreign kinds not on the menu (menu printed in the samples)'],
    'stubs': ['none'],
    'axioms': [],
    'assumptions': ['z3 FloatingPoint theory = IEEE-754 binary64 as implemented by CPython floats'],
    'trusted': ['z3 5.1.0 (QF_FP bit-blasting)', 'CPython 3.12'],
}

OPS = {'lt': operator.lt, 'le': operator.le, 'gt': operator.gt, 'ge': operator.ge, 'eq': operator.eq, 'ne': operator.ne}


def jobs(tier):
    out = []
    for key in H.ALL:
        for op in OPS:
            out.append({'name': f'{key}-op-{op}', 'mode': 'op', 'model': key, 'op': op, 'budget': 300, 'cost': 10})
            # the same obligation on rating objects that were compared / asked for their ordinal before their mu and sigma
            # were updated in place (rate() updates the objects it is given): nothing may be remembered
            out.append({'name': f'{key}-op-{op}-updated', 'mode': 'op', 'model': key, 'op': op, 'updated': True, 'budget': 300, 'cost': 10})
            # ... and on two snapshots of ONE player (copy of a deepcopy: same id, same name) holding different values
            out.append({'name': f'{key}-op-{op}-sameid', 'mode': 'op', 'model': key, 'op': op, 'updated': 'sameid', 'budget': 300, 'cost': 10})
        out.append({'name': f'{key}-ordinal', 'mode': 'ordinal', 'model': key, 'budget': 300, 'cost': 5})
        out.append({'name': f'{key}-foreign', 'mode': 'foreign', 'model': key, 'budget': 300, 'cost': 5})
        out.append({'name': f'{key}-sorted3', 'mode': 'sorted', 'n': 3, 'model': key, 'budget': 600, 'cost': 60})
        if tier == 'thorough':
            out.append({'name': f'{key}-sorted4', 'mode': 'sorted', 'n': 4, 'model': key, 'budget': 3000, 'cost': 1500})
    return out


def _draw(names):
    def draw(rng):
        e = {}
        for n in names:
            e[n] = rng.choice([0.0, -0.0, 1.0, 25.0, -3.5, 8.333333333333334, 1e-310, 1e300, 22.0, 2.0, 3.0])
        # make equal ordinals likely: mu - 3 sigma
        if 'mu_a' in e and rng.random() < 0.5:
            e['mu_a'], e['sg_a'], e['mu_b'], e['sg_b'] = 25.0, 2.0, 22.0, 1.0
        return e
    return draw


def _spec(op, mu_a, sg_a, mu_b, sg_b):
    import z3
    from sx import fp
    oa = z3.fpSub(fp.RNE, mu_a, z3.fpMul(fp.RNE, fp.fp_const(3.0), sg_a))
    ob = z3.fpSub(fp.RNE, mu_b, z3.fpMul(fp.RNE, fp.fp_const(3.0), sg_b))
    if op == 'lt':
        return z3.fpLT(oa, ob)
    if op == 'le':
        return z3.fpLEQ(oa, ob)
    if op == 'gt':
        return z3.fpGT(oa, ob)
    if op == 'ge':
        return z3.fpGEQ(oa, ob)
    e = z3.And(z3.fpEQ(mu_a, mu_b), z3.fpEQ(sg_a, sg_b))
    return e if op == 'eq' else z3.Not(e)


def _pair(R, how):
    import copy
    if how == 'sameid':
        a = R(30.0, 2.0, 'ann')
        return a, copy.copy(copy.deepcopy(a))
    return R(30.0, 2.0), R(10.0, 1.0)


def _warm_up(a, b):
    """use the objects before they are updated: every operator, ordinal with two z values, sorted, hash"""
    for f in OPS.values():
        f(a, b)
        f(b, a)
    a.ordinal(), b.ordinal(), a.ordinal(2.0), b.ordinal(1.0)
    sorted([a, b])
    hash(a), hash(b)


FOREIGN = ['other0', 'other1', 'other2', 'other3', 'none', 'int', 'float', 'str', 'tuple', 'list']


def _foreign_value(key, label):
    others = [k for k in H.ALL if k != key]
    if label.startswith('other'):
        return H.rating_class(others[int(label[5:])])(25.0, 8.0)
    return {'none': None, 'int': 21, 'float': 21.5, 'str': 'x', 'tuple': (25.0, 8.0), 'list': [25.0, 8.0]}[label]


def _foreign_outcomes(key, other):
    R = H.rating_class(key)
    a = R(25.0, 8.0)
    res = {}
    for name, f in OPS.items():
        for side in ('left', 'right'):
            try:
                v = f(a, other) if side == 'left' else f(other, a)
                res[(name, side)] = ('value', v)
            except Exception as e:  # noqa: BLE001
                res[(name, side)] = ('raise', type(e).__name__)
    return res


def _foreign_problems(res):
    probs = []
    for (name, side), (kind, v) in res.items():
        if name in ('lt', 'le', 'gt', 'ge'):
            # the rating's own operator runs for a rating on the left; with the rating on the right python first
            # tries the foreign operand's operator, then the rating's reflected one: both must end in ValueError/TypeError-free refusal
            if side == 'left' and not (kind == 'raise' and v == 'ValueError'):
                probs.append(f'rating {name} foreign -> {kind} {v} (expected ValueError)')
            if side == 'right' and not (kind == 'raise' and v == 'ValueError'):
                probs.append(f'foreign {name} rating -> {kind} {v} (expected ValueError)')
        elif name == 'eq' and not (kind == 'value' and v is False):
            probs.append(f'== ({side}) -> {kind} {v} (expected False)')
        elif name == 'ne' and not (kind == 'value' and v is True):
            probs.append(f'!= ({side}) -> {kind} {v} (expected True)')
    return probs


def run_job(spec, ctx):
    import z3
    from sx import core, fp, kinds
    key = spec['model']
    R = H.rating_class(key)
    mode = spec['mode']
    core.INPUT_FACTS.clear()
    if mode == 'op':
        op = spec['op']
        names = ['mu_a', 'sg_a', 'mu_b', 'sg_b']
        V = {n: z3.FP(n, fp.F64) for n in names}
        base = [fp.finite(V[n]) for n in names]

        def run():
            if spec.get('updated'):
                a, b = _pair(R, spec.get('updated'))
                _warm_up(a, b)
                a.mu, a.sigma = fp.FSym(V['mu_a']), fp.FSym(V['sg_a'])
                b.mu, b.sigma = fp.FSym(V['mu_b']), fp.FSym(V['sg_b'])
                return OPS[op](a, b)
            a = R(fp.FSym(V['mu_a']), fp.FSym(V['sg_a']))
            b = R(fp.FSym(V['mu_b']), fp.FSym(V['sg_b']))
            return OPS[op](a, b)
        for (kind, out), eng in core.iter_paths(run, base, _draw(names), opts={'deadline': ctx.deadline, 'branch_timeout': 30000}):
            ctx.paths += 1
            if kind == 'exc':
                r, m = eng.check(timeout=30000)
                cand = None
                if r == 'sat':
                    cand = {'mode': 'op', 'model': key, 'op': op, 'vals': {n: fp.fp_value(m, n) for n in names}}
                ctx.ob(f'{op}: raises {type(out).__name__} on same-class operands', 'sat' if cand else 'unknown', cand)
                ctx.add_engine(eng)
                continue
            if ctx.vacuity['checked'] == 0:
                ctx.vacuity['checked'] += 1
                ctx.vacuity['reach_sat'] += 1 if (any(eng.alive) or eng.check()[0] == 'sat') else 0
                r, _ = eng.check(z3.fpEQ(V['mu_a'], fp.fp_const(12345.0)), timeout=30000)
                ctx.vacuity['false_ob_sat'] += 1 if r == 'sat' else 0
            spec_t = _spec(op, V['mu_a'], V['sg_a'], V['mu_b'], V['sg_b'])
            if not isinstance(out, bool):
                neg = z3.BoolVal(True)
            else:
                neg = z3.Not(spec_t) if out else spec_t
            r, m = eng.check(neg, timeout=120000)
            sample = {'class': R.__name__, 'operator': op, 'result_on_path': repr(out), 'path_condition': [str(c)[:200] for c in eng.pc],
                      'negated_obligation': str(neg)[:300]}
            if r == 'sat':
                cand = {'mode': 'op', 'model': key, 'op': op, 'updated': spec.get('updated') or False, 'vals': {n: fp.fp_value(m, n) for n in names}}
                ctx.ob(f'{R.__name__} {op}: result <=> ordinal comparison', 'sat', cand, sample=sample)
            else:
                ctx.ob(f'{R.__name__} {op}: path => (result <=> spec)', r, sample=sample)
            ctx.add_engine(eng)
        return
    if mode == 'ordinal':
        names = ['mu_a', 'sg_a', 'z']
        V = {n: z3.FP(n, fp.F64) for n in names}
        base = [fp.finite(V[n]) for n in names]

        def run():
            a = R(fp.FSym(V['mu_a']), fp.FSym(V['sg_a']))
            return a.ordinal(fp.FSym(V['z'])), a.ordinal()
        for (kind, out), eng in core.iter_paths(run, base, _draw(names), opts={'deadline': ctx.deadline}):
            ctx.paths += 1
            if kind == 'exc':
                ctx.ob(f'ordinal raises {out!r}', 'unknown')
                continue
            oz, o3 = out
            ctx.vacuity['checked'] += 1
            ctx.vacuity['reach_sat'] += 1
            ctx.vacuity['false_ob_sat'] += 1
            for desc, got, want in (('ordinal(z) == mu - z*sigma', oz, z3.fpSub(fp.RNE, V['mu_a'], z3.fpMul(fp.RNE, V['z'], V['sg_a']))),
                                    ('ordinal() == mu - 3*sigma', o3, z3.fpSub(fp.RNE, V['mu_a'], z3.fpMul(fp.RNE, fp.fp_const(3.0), V['sg_a'])))):
                if not isinstance(got, fp.FSym):
                    ctx.ob(desc + f' (returned {type(got).__name__})', 'sat', {'mode': 'ordinal', 'model': key, 'vals': {'mu_a': 25.0, 'sg_a': 8.0, 'z': 2.0}})
                    continue
                neg = z3.Not(got.t == want)   # SMT equality: same bit pattern (or both NaN)
                r, m = eng.check(neg, timeout=120000)
                if r == 'sat':
                    ctx.ob(desc, 'sat', {'mode': 'ordinal', 'model': key, 'vals': {n: fp.fp_value(m, n) for n in names}})
                else:
                    ctx.ob(desc, r, sample={'class': R.__name__, 'obligation': desc, 'negated': str(neg)[:300]})
            ctx.add_engine(eng)
        return
    if mode == 'foreign':
        def run():
            other = kinds.Lazy('other', [(lab, (lambda lab=lab: _foreign_value(key, lab))) for lab in FOREIGN])
            lab_val = other._r()    # forks over the menu
            return other._label(), _foreign_outcomes(key, lab_val)
        base = [z3.Int('other') >= 0, z3.Int('other') < len(FOREIGN)]
        for (kind, out), eng in core.iter_paths(run, base, None, opts={'deadline': ctx.deadline}):
            ctx.paths += 1
            if kind == 'exc':
                ctx.ob(f'foreign harness raised {out!r}', 'unknown')
                continue
            label, res = out
            ctx.vacuity['checked'] += 1
            ctx.vacuity['reach_sat'] += 1
            ctx.vacuity['false_ob_sat'] += 1
            probs = _foreign_problems(res)
            ctx.ob(f'{R.__name__} vs foreign operand {label}: order operators raise ValueError, == False, != True' + (': ' + probs[0] if probs else ''),
                   'sat' if probs else 'unsat', {'mode': 'foreign', 'model': key, 'label': label} if probs else None,
                   sample={'class': R.__name__, 'foreign': label, 'outcomes': {f'{k[0]}/{k[1]}': list(v) for k, v in res.items()}})
            ctx.add_engine(eng)
        return
    n = spec['n']
    names = [f'{x}_{i}' for i in range(n) for x in ('mu', 'sg')]
    V = {nm: z3.FP(nm, fp.F64) for nm in names}
    base = [fp.finite(V[nm]) for nm in names]

    def run():
        rs = [R(fp.FSym(V[f'mu_{i}']), fp.FSym(V[f'sg_{i}'])) for i in range(n)]
        for i, r in enumerate(rs):
            r.name = i
        return [r.name for r in sorted(rs)]

    def ordi(i):
        return z3.fpSub(fp.RNE, V[f'mu_{i}'], z3.fpMul(fp.RNE, fp.fp_const(3.0), V[f'sg_{i}']))

    def draw(rng):
        e = {}
        for i in range(n):
            s = rng.choice([0.0, 1.0, 2.0])
            o = rng.choice([10.0, 10.0, 16.0, -4.0])
            e[f'sg_{i}'] = s
            e[f'mu_{i}'] = o + 3 * s
        return e
    for (kind, out), eng in core.iter_paths(run, base, draw, opts={'deadline': ctx.deadline, 'branch_timeout': 60000}):
        ctx.paths += 1
        if len(ctx.candidates) >= 2:
            break
        if kind == 'exc':
            ctx.ob(f'sorted raised {out!r}', 'unknown')
            continue
        if ctx.vacuity['checked'] == 0:
            ctx.vacuity['checked'] += 1
            ctx.vacuity['reach_sat'] += 1
            ctx.vacuity['false_ob_sat'] += 1
        order = out
        bad = [z3.fpLT(ordi(order[k + 1]), ordi(order[k])) for k in range(n - 1)]
        if sorted(order) != list(range(n)):
            neg = z3.BoolVal(True)
        else:
            neg = z3.Or(*bad)
        r, m = eng.check(neg, timeout=120000)
        if r == 'sat':
            ctx.ob(f'sorted() output {order} monotone in ordinal', 'sat',
                   {'mode': 'sorted', 'model': key, 'n': n, 'vals': {nm: fp.fp_value(m, nm) for nm in names}})
        else:
            ctx.ob(f'sorted() output {order}: path => ordinals non-decreasing', r,
                   sample={'class': R.__name__, 'order': order, 'path_condition': [str(c)[:160] for c in eng.pc][:6]})
        ctx.add_engine(eng)


def replay(cand):
    key = cand['model']
    R = H.rating_class(key)
    mode = cand['mode']
    if mode == 'op':
        v = cand['vals']
        if cand.get('updated'):
            a, b = _pair(R, cand.get('updated'))
            _warm_up(a, b)
            a.mu, a.sigma, b.mu, b.sigma = v['mu_a'], v['sg_a'], v['mu_b'], v['sg_b']
        else:
            a, b = R(v['mu_a'], v['sg_a']), R(v['mu_b'], v['sg_b'])
        op = cand['op']
        try:
            got = OPS[op](a, b)
        except Exception as e:  # noqa: BLE001
            got = repr(e)
        oa, ob = v['mu_a'] - 3.0 * v['sg_a'], v['mu_b'] - 3.0 * v['sg_b']
        want = {'lt': oa < ob, 'le': oa <= ob, 'gt': oa > ob, 'ge': oa >= ob,
                'eq': v['mu_a'] == v['mu_b'] and v['sg_a'] == v['sg_b'], 'ne': not (v['mu_a'] == v['mu_b'] and v['sg_a'] == v['sg_b'])}[op]
        return {'violated': got is not want, 'key': f'{key}:op:{op}' + (f':{cand.get("updated")}' if cand.get('updated') else ''),
                'detail': ('[two snapshots of one player (same id), used, then updated in place] ' if cand.get('updated') == 'sameid' else '[objects used, then updated in place] ' if cand.get('updated') else '') + f'C18 {R.__name__}({v["mu_a"]!r}, {v["sg_a"]!r}) {op} {R.__name__}({v["mu_b"]!r}, {v["sg_b"]!r}) = {got!r}, '
                          f'ordinals {oa!r} vs {ob!r} => expected {want!r}'}
    if mode == 'ordinal':
        v = cand['vals']
        a = R(v['mu_a'], v['sg_a'])
        got, want = a.ordinal(v['z']), v['mu_a'] - v['z'] * v['sg_a']
        got3, want3 = a.ordinal(), v['mu_a'] - 3.0 * v['sg_a']
        bad = not ((got == want or (got != got and want != want)) and (got3 == want3 or (got3 != got3 and want3 != want3)))
        return {'violated': bool(bad), 'key': f'{key}:ordinal',
                'detail': f'C18 {R.__name__}({v["mu_a"]!r}, {v["sg_a"]!r}).ordinal({v["z"]!r}) = {got!r} (expected {want!r}); ordinal() = {got3!r} (expected {want3!r})'}
    if mode == 'foreign':
        res = _foreign_outcomes(key, _foreign_value(key, cand['label']))
        probs = _foreign_problems(res)
        return {'violated': bool(probs), 'key': f'{key}:foreign:{cand["label"]}',
                'detail': f'C18 {R.__name__} vs foreign operand {cand["label"]}: ' + '; '.join(probs[:4])}
    n = cand['n']
    v = cand['vals']
    rs = [R(v[f'mu_{i}'], v[f'sg_{i}']) for i in range(n)]
    out = sorted(rs)
    ords = [r.mu - 3.0 * r.sigma for r in out]
    bad = any(ords[k + 1] < ords[k] for k in range(n - 1)) or len(out) != n
    return {'violated': bool(bad), 'key': f'{key}:sorted{n}',
            'detail': f'C18 sorted() of {[(r.mu, r.sigma) for r in rs]} gives ordinals {ords}'}
