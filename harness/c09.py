"""C09 -- predict_win returns a probability distribution that respects symmetry and skill."""
import itertools

from harness import common as H
from harness import predict as PR

INFO = {
    'level': 'other',
    'explanation': (
        'Symbolic execution of the real predict_win (sx engine, mode R; Phi Ackermannised with congruence, negation rule Phi(-a) = 1-Phi(a), '
        'monotonicity axioms between every pair of applications). Clauses, each decided by z3 on every path for all mu, sigma >= 0, beta > 0: '
        '(range) one value per team, each in [0,1]; (sum) the values sum to 1; (perm) two-run: permuting teams (all n!) or players permutes the '
        'result; (ident) teams built from the same symbols get identical values, two identical teams exactly 1/2; (mono) two-run with one '
        'member\'s mu raised by a symbolic d > 0: own value does not decrease, no other value increases.'),
    'bounds': {
        'quick': 'five models x shapes (1,1),(2,1),(2,2),(1,1,1),(1,2,1),(1,1,1,1),(2,1,2,1), all clauses, all n! team permutations; eight teams of one and of eight players: range, sum, identical teams',
        'thorough': '+ (3,2),(2,3,1) all clauses, (1,1,1,1,1) range/sum/ident and 12 of 120 permutations',
    },
    'outside': ['IEEE rounding', 'permutation and monotonicity clauses for 6-8 teams'],
    'stubs': None,
    'axioms': ['T0/T1 for Phi (range, Phi(0)=1/2, strict monotonicity, negation)'],
    'assumptions': ['real-number semantics (mode R)'],
}


def jobs(tier):
    out = []

    def add(key, shape, clause, budget=300, cost=10, **kw):
        d = {'name': f'{key}-{H.shape_str(shape)}-{clause}' + (('-' + kw['tag']) if 'tag' in kw else ''), 'model': key,
             'shape': list(shape), 'clause': clause, 'budget': budget, 'cost': cost}
        d.update(kw)
        out.append(d)
    small = [(1, 1), (2, 1), (2, 2), (1, 1, 1), (1, 2, 1)]
    four = [(1, 1, 1, 1), (2, 1, 2, 1)]
    for key in H.ALL:
        for shape in small:
            for clause in ('dist', 'perm', 'ident', 'mono'):
                add(key, shape, clause)
        for shape in four:
            add(key, shape, 'dist', cost=30)
            add(key, shape, 'ident', cost=30)
            add(key, shape, 'perm', cost=60, budget=600 if tier == 'quick' else 2400, nperm=24)
            add(key, shape, 'mono', cost=300, budget=600 if tier == 'quick' else 2400)
        # the full size the property names: eight teams (of one and of eight players)
        for shape in [(1,) * 8, (8,) * 8]:
            add(key, shape, 'dist', cost=100, budget=600)
            if tier == 'thorough' or shape == (1,) * 8:
                add(key, shape, 'ident', cost=150, budget=600)
        if tier == 'thorough':
            for shape in [(3, 2), (2, 3, 1)]:
                for clause in ('dist', 'perm', 'ident', 'mono'):
                    add(key, shape, clause, budget=1800, cost=100)
            add(key, (1, 1, 1, 1, 1), 'dist', budget=1800, cost=200)
            add(key, (1, 1, 1, 1, 1), 'ident', budget=1800, cost=200)
            add(key, (1, 1, 1, 1, 1), 'perm', budget=2400, cost=600, nperm=12)
    return out


def _perms(n, limit=None):
    ps = [p for p in itertools.permutations(range(n)) if p != tuple(range(n))]
    if limit and len(ps) > limit:
        step = len(ps) / limit
        ps = [ps[int(k * step)] for k in range(limit)]
    return ps


def _ident_pairs(shape):
    """pairs of teams of equal size (made identical), plus 'all equal' when every size is the same"""
    out = []
    for a, b in itertools.combinations(range(len(shape)), 2):
        if shape[a] == shape[b]:
            out.append((a, b))
    return out[:3]


def _variants(spec):
    shape = tuple(spec['shape'])
    c = spec['clause']
    if c == 'dist':
        return [('dist',)]
    if c == 'perm':
        v = [('perm', list(p)) for p in _perms(len(shape), spec.get('nperm'))]
        if any(k > 1 for k in shape):
            v.append(('players',))
        return v
    if c == 'ident':
        # 'alias': the very same list object is entered as two teams (a caller re-using one team list)
        return [('ident', a, b) for a, b in _ident_pairs(shape)] + [('alias', a, b) for a, b in _ident_pairs(shape)[:2]]
    return [('mono', i, j) for i, k in enumerate(shape) for j in range(k)]


def _run(key, shape, variant, mk):
    """returns (A, B): result lists of the one or two runs"""
    Model = H.model_class(key)
    m = Model(beta=mk('beta'))
    kind = variant[0]
    if kind == 'dist':
        return PR.call(m, 'predict_win', PR.build_teams(m, shape, mk)), None
    if kind == 'perm':
        a = PR.call(m, 'predict_win', PR.build_teams(m, shape, mk))
        b = PR.call(m, 'predict_win', PR.build_teams(m, shape, mk, perm=variant[1]))
        return a, b
    if kind == 'players':
        a = PR.call(m, 'predict_win', PR.build_teams(m, shape, mk))
        t = [list(reversed(x)) for x in PR.build_teams(m, shape, mk)]
        return a, PR.call(m, 'predict_win', t)
    if kind == 'ident':
        _, a_, b_ = variant
        ov = {(b_, j): (mk(H.pname('mu', a_, j)), mk(H.pname('sg', a_, j))) for j in range(shape[b_])}
        return PR.call(m, 'predict_win', PR.build_teams(m, shape, mk, overrides=ov)), None
    if kind == 'alias':
        _, a_, b_ = variant
        teams = PR.build_teams(m, shape, mk)
        teams[b_] = teams[a_]
        return PR.call(m, 'predict_win', teams), None
    _, i, j = variant
    a = PR.call(m, 'predict_win', PR.build_teams(m, shape, mk))
    ov = {(i, j): (mk(H.pname('mu', i, j)) + mk('d'), mk(H.pname('sg', i, j)))}
    b = PR.call(m, 'predict_win', PR.build_teams(m, shape, mk, overrides=ov))
    return a, b


def _negations(variant, shape, a, b):
    """list of (description, negated-obligation z3 formula or None when syntactically true)"""
    import z3
    from sx import core
    n = len(shape)
    L = core.lift
    kind = variant[0]
    obs = []
    if kind == 'dist':
        if len(a) != n:
            return [('one value per team', z3.BoolVal(True))]
        obs.append(('each value in [0,1]', z3.Or(*[z3.Or(L(x) < 0, L(x) > 1) for x in a])))
        tot = sum(L(x) for x in a)
        d = core.som(tot - 1)
        obs.append(('values sum to 1', None if core.is_zero(d) else tot != 1))
        return obs
    if kind == 'perm':
        p = variant[1]
        diffs = [PR.terms_equal(b[k], a[p[k]]) for k in range(n)]
        diffs = [x for x in diffs if x is not None]
        return [(f'permutation {p} permutes the result', z3.Or(*diffs) if diffs else None)]
    if kind == 'players':
        diffs = [x for x in (PR.terms_equal(x, y) for x, y in zip(a, b)) if x is not None]
        return [('reordering players leaves the result unchanged', z3.Or(*diffs) if diffs else None)]
    if kind in ('ident', 'alias'):
        _, i, j = variant
        if len(a) != n:
            return [('one value per team', z3.BoolVal(True))]
        if kind == 'alias':
            tot = sum(L(x) for x in a)
            obs.append(('one list object entered as two teams: each value in [0,1]', z3.Or(*[z3.Or(L(x) < 0, L(x) > 1) for x in a])))
            obs.append(('one list object entered as two teams: values sum to 1', None if core.is_zero(core.som(tot - 1)) else tot != 1))
        obs.append((f'identical teams {i},{j} get identical values', PR.terms_equal(a[i], a[j])))
        if n == 2:
            obs.append(('two identical teams get exactly 1/2', z3.Or(2 * L(a[0]) != 1, 2 * L(a[1]) != 1)))
        return obs
    _, i, j = variant
    bad = [L(b[i]) < L(a[i])] + [L(b[k]) > L(a[k]) for k in range(n) if k != i]
    return [(f'raising mu of player ({i},{j}): own value not lower, others not higher', z3.Or(*bad))]


def _draw(shape):
    return PR.pred_draw(shape, extra=lambda rng, e: e.__setitem__('d', e['beta'] * rng.choice([1e-3, 0.5, 3.0])))


def run_job(spec, ctx):
    import z3
    from sx import core
    core.install()
    key, shape = spec['model'], tuple(spec['shape'])
    PR.set_pred_facts(shape)
    core.INPUT_FACTS['d'] = core.F(0.0, True)
    base = PR.pred_domain(shape) + [z3.Real('d') > 0, z3.Real('d') <= 20 * z3.Real('beta')]
    mk = H.sym_maker()
    names = PR.pred_names(shape) + ['d']
    for variant in _variants(spec):
        if ctx.candidates:
            break
        for (kind, out), eng in core.iter_paths(lambda: _run(key, shape, variant, mk), base, _draw(shape),
                                                opts={'deadline': ctx.deadline}):
            ctx.paths += 1
            if kind == 'exc':
                ctx.ob(f'{variant}: path ends in {type(out).__name__}: {out}', 'unknown')
                ctx.add_engine(eng)
                continue
            a, b = out
            H.validate_shadows(ctx, eng, [a, b] if b is not None else a,
                               lambda env: (lambda r: [r[0], r[1]] if r[1] is not None else r[0])(_run(key, shape, variant, H.float_maker(env))))
            if ctx.vacuity['checked'] == 0:
                H.vacuity_check(ctx, eng, core.lift(a[0]) == 12345)
            for desc, neg in _negations(variant, shape, a, b):
                if neg is None:
                    ctx.ob(desc + ' (syntactic identity)', 'syntactic')
                    continue
                r, m = eng.check(neg, timeout=60000)
                sample = {'model': key, 'shape': list(shape), 'variant': list(variant), 'negated_obligation': str(neg)[:400]}
                if r == 'sat':
                    cands = [{'inputs': inp, 'model': key, 'shape': list(shape), 'variant': list(variant)}
                             for inp in H.witness_models(eng, neg, names, [z3.Real('beta') == z3.RealVal('25/6')])]
                    H.mark_last(cands)
                    ctx.ob(desc, 'sat' if cands else 'unknown', cands, sample=sample)
                else:
                    ctx.ob(desc, r, sample=sample)
            ctx.add_engine(eng)


def replay(cand):
    key, shape, variant = cand['model'], tuple(cand['shape']), cand['variant']
    variant = tuple(tuple(x) if isinstance(x, list) and variant[0] != 'perm' else x for x in variant)
    inp = cand['inputs']
    a, b = _run(key, shape, variant, H.float_maker(inp))
    n = len(shape)
    kind = variant[0]
    tol = 1e-9
    probs = []
    if kind == 'dist':
        if len(a) != n:
            probs.append(f'{len(a)} values for {n} teams')
        if any(x < 0 or x > 1 for x in a):
            probs.append('value outside [0,1]')
        if abs(sum(a) - 1) > tol:
            probs.append(f'sum = {sum(a)!r}')
    elif kind == 'perm':
        p = variant[1]
        if any(abs(b[k] - a[p[k]]) > tol for k in range(n)):
            probs.append(f'permutation {p}: {b} vs permuted {[a[x] for x in p]}')
    elif kind == 'players':
        if any(abs(x - y) > tol for x, y in zip(a, b)):
            probs.append(f'player order changes the result: {a} vs {b}')
    elif kind in ('ident', 'alias'):
        _, i, j = variant
        if kind == 'alias' and (len(a) != n or any(x < 0 or x > 1 for x in a) or abs(sum(a) - 1) > tol):
            probs.append(f'the same list entered as teams {i} and {j}: {a} (sum {sum(a)!r})')
        if abs(a[i] - a[j]) > tol:
            probs.append(f'identical teams {i},{j}: {a[i]!r} vs {a[j]!r}')
        if n == 2 and (a[0] != 0.5 or a[1] != 0.5):
            probs.append(f'two identical teams: {a}')
    else:
        _, i, j = variant
        if b[i] < a[i] - 1e-12 or any(b[k] > a[k] + 1e-12 for k in range(n) if k != i):
            probs.append(f'mu+d for player ({i},{j}): before {a}, after {b}')
    return {'violated': bool(probs), 'key': f'{key}:{H.shape_str(shape)}:{kind}',
            'detail': f'C09 {H.MODEL_NAMES[key]}.predict_win shape={shape} {variant} inputs={inp}: ' + '; '.join(probs)}
