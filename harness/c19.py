"""C19 -- the five models differ only in their update rule."""
import inspect
import itertools

from harness import common as H
from harness import predict as PR

INFO = {
    'level': 'other',
    'explanation': (
        'Differential symbolic execution across the five copies (sx engine). (pred) the three predictions of all five classes run in one symbolic '
        'path on ratings with the same symbolic (mu, sigma) and beta: the result terms must be identical across classes (syntactic, else z3). '
        '(valid) for each class as base the whole malformed-argument grammar of C13 is explored with lazy kind proxies; on every path the concrete '
        'argument (uninspected positions well-formed) is rebuilt for each of the other four classes and the outcome class (ok / TypeError / '
        'ValueError / other) must coincide. (rating) symbolic constructor, comparison, hash-rule (module-global hash stubbed to expose its argument) '
        'and deepcopy behaviour compared across classes. (bt2) two-run, mode R: Bradley-Terry partial pairing returns the same terms as full pairing '
        'on every two-team shape and outcome. (sig) signatures of the public operations and the MODELS registry are compared with inspect - a plain '
        'reflective check, reported as such, not a solver result.'),
    'bounds': {
        'quick': 'pred: shapes (1,1),(2,1),(1,2,1),(1,1,1,1); valid: C13 quick menus, rate + 3 predictions, 5 base classes; bt2: (1,1),(2,1),(2,2) x 3 outcomes, limit_sigma on/off',
        'thorough': 'pred: + (2,2,2),(3,2),(1,1,1,1,1); valid: C13 thorough menus with PlackettLuce as base class (quick menus for the other four bases); bt2: + (3,2),(3,3)',
    },
    'outside': ['argument kinds not on the C13 menus', 'IEEE rounding in the bt2 clause'],
    'stubs': ['hash as module global of each model file -> returns its argument (rating clause only)'],
    'axioms': ['T0/T1 (DESIGN 2.2)'],
    'assumptions': ['real-number semantics (mode R) for pred and bt2'],
}


def jobs(tier):
    out = []
    shapes = [(1, 1), (2, 1), (1, 2, 1), (1, 1, 1, 1)] + ([(2, 2, 2), (3, 2), (1, 1, 1, 1, 1)] if tier == 'thorough' else [])
    for op in PR.OPS:
        for shape in shapes:
            if op == 'predict_rank' and len(shape) >= 4 and (tier == 'quick' or len(shape) > 4):
                continue  # ranking forks over every order of the probabilities: 4 teams in the thorough tier only
            out.append({'name': f'pred-{op}-{H.shape_str(shape)}', 'mode': 'pred', 'op': op, 'shape': list(shape), 'budget': 900, 'cost': 10 * len(shape) ** 2})
    for key in H.ALL:
        for op in ('rate', 'predict_win', 'predict_draw', 'predict_rank'):
            out.append({'name': f'valid-{key}-{op}', 'mode': 'valid', 'model': key, 'op': op, 'tier': 'quick',  # the larger grammar of the thorough tier is explored per class in C13; here every path also calls the four other classes
                        'budget': 1200 if tier == 'quick' else 3000, 'cost': 400 if op == 'rate' else 20})
    out.append({'name': 'rating', 'mode': 'rating', 'budget': 300, 'cost': 5})
    out.append({'name': 'signatures', 'mode': 'sig', 'budget': 60, 'cost': 1})
    bt_shapes = [(1, 1), (2, 1), (2, 2)] + ([(3, 2), (3, 3)] if tier == 'thorough' else [])
    for shape in bt_shapes:
        for W in H.weak_orders(2):
            for ls in (False, True):
                out.append({'name': f'bt2-{H.shape_str(shape)}-{H.ranks_str(W)}-{"ls" if ls else "nols"}', 'mode': 'bt2', 'shape': list(shape),
                            'ranks': list(W), 'ls': ls, 'budget': 600, 'cost': 30})
    return out


def _pred_all(op, shape, mk):
    res = {}
    for key in H.ALL:
        Model = H.model_class(key)
        m = Model(beta=mk('beta'))
        res[key] = PR.call(m, op, PR.build_teams(m, shape, mk))
    return res


def run_pred(spec, ctx):
    import importlib
    import z3
    from sx import core
    core.install()
    op, shape = spec['op'], tuple(spec['shape'])
    PR.set_pred_facts(shape)
    base = PR.pred_domain(shape)
    mk = H.sym_maker()
    names = PR.pred_names(shape)
    for (kind, out), eng in core.iter_paths(lambda: _pred_all(op, shape, mk), base, PR.pred_draw(shape),
                                            opts={'deadline': ctx.deadline, 'branch_timeout': 10000}):
        ctx.paths += 1
        if ctx.candidates:
            break
        if kind == 'exc':
            ctx.ob(f'{op}: path ends in {type(out).__name__}: {out}', 'unknown')
            ctx.add_engine(eng)
            continue
        if ctx.vacuity['checked'] == 0:
            H.vacuity_check(ctx, eng, core.lift(list(H._flatten(out['pl']))[-1]) == 12345)
        ref = list(H._flatten(out['pl']))
        for key in H.ALL[1:]:
            got = list(H._flatten(out[key]))
            diffs = []
            bad_struct = len(got) != len(ref)
            for x, y in zip(ref, got):
                if isinstance(x, core.Sym) or isinstance(y, core.Sym):
                    d = PR.terms_equal(x, y)
                    if d is not None:
                        diffs.append(d)
                elif x != y:
                    bad_struct = True
            desc = f'{op} of {H.MODEL_NAMES[key]} == {op} of PlackettLuce on shape {shape}'
            if bad_struct:
                inp = core.model_inputs(eng.check()[1], names) if eng.check()[0] == 'sat' else None
                ctx.ob(desc + ' (structure/ranks differ)', 'sat' if inp else 'unknown', {'mode': 'pred', 'op': op, 'shape': list(shape), 'key': key, 'inputs': inp} if inp else None)
            elif not diffs:
                ctx.ob(desc + ' (syntactic identity)', 'syntactic', sample={'op': op, 'shape': list(shape), 'classes': ['pl', key]})
            else:
                neg = z3.Or(*diffs)
                r, m = eng.check(neg, timeout=60000)
                if r == 'sat':
                    cands = [{'mode': 'pred', 'op': op, 'shape': list(shape), 'key': key, 'inputs': inp}
                             for inp in H.witness_models(eng, neg, names, [z3.Real('beta') == z3.RealVal('25/6')])]
                    H.mark_last(cands)
                    ctx.ob(desc, 'sat' if cands else 'unknown', cands)
                else:
                    ctx.ob(desc, r)
        ctx.add_engine(eng)


def _outcome_class(key, op, desc):
    from harness import c13
    registry = []
    teams = c13.build_concrete(key, desc['teams'], 'teams', registry)
    ranks = c13.build_concrete(key, desc['ranks'], 'vec', registry) if op == 'rate' else None
    scores = c13.build_concrete(key, desc['scores'], 'vec', registry) if op == 'rate' else None
    m = H.model_class(key)()
    try:
        if op == 'rate':
            m.rate(teams, ranks=ranks, scores=scores)
        else:
            getattr(m, op)(teams)
        return 'ok'
    except (TypeError, ValueError) as e:
        return type(e).__name__
    except Exception as e:  # noqa: BLE001
        return 'other:' + type(e).__name__


def run_valid(spec, ctx):
    from sx import core
    from harness import c13
    core.install()
    key, op, tier = spec['model'], spec['op'], spec['tier']
    core.INPUT_FACTS.clear()

    def run():
        registry = []
        Model, mk_teams, mk_vec = c13._menus(key, tier, registry)
        m = Model()
        teams = mk_teams()
        ranks = mk_vec('ranks') if op == 'rate' else None
        scores = mk_vec('scores') if op == 'rate' else None
        try:
            if op == 'rate':
                m.rate(teams, ranks=ranks, scores=scores)
            else:
                getattr(m, op)(teams)
            outcome = 'ok'
        except (TypeError, ValueError) as e:
            outcome = type(e).__name__
        return outcome, {'teams': c13.describe(teams), 'ranks': c13.describe(ranks), 'scores': c13.describe(scores)}

    for (kind, out), eng in core.iter_paths(run, [], None, opts={'deadline': ctx.deadline}, max_paths=10 ** 7):
        ctx.paths += 1
        if len(ctx.candidates) >= 3:
            break
        if kind == 'exc':
            ctx.ob(f'{op}: exception {type(out).__name__} escapes from {H.MODEL_NAMES[key]} ({out})', 'unknown')
            continue
        if ctx.vacuity['checked'] == 0:
            ctx.vacuity['checked'] += 1
            ctx.vacuity['reach_sat'] += 1
            ctx.vacuity['false_ob_sat'] += 1
        outcome, desc = out
        # note: labels 'foreignK' are relative to the class under test (K-th other class), which keeps the grammar aligned
        others = {k: _outcome_class(k, op, desc) for k in H.ALL if k != key}
        own = _outcome_class(key, op, desc)
        bad = [k for k, v in others.items() if v != own]
        ctx.ob(f'{op}: outcome class {own} is the same in all five models' + (f' (differs in {bad}: {[others[k] for k in bad]})' if bad else ''),
               'sat' if bad else 'unsat', {'mode': 'valid', 'op': op, 'base': key, 'desc': desc} if bad else None,
               sample={'base': key, 'op': op, 'outcome': own, 'arguments': desc} if ctx.paths % 197 == 1 else None)
        ctx.add_engine(eng)


def _rating_facts(key):
    """symbolic-ish facts about the rating class, comparable across classes"""
    import importlib
    import copy
    mod = importlib.import_module('openskill.models.weng_lin.' + H.MODULE_OF[key])
    R = H.rating_class(key)
    Model = H.model_class(key)
    facts = {}
    tok_mu, tok_sg = object(), object()
    old = mod.__dict__.get('hash')
    mod.hash = lambda x: x
    try:
        r = R(tok_mu, tok_sg, 'nm')
        h = R.__hash__(r)
        facts['hash_rule'] = tuple('id' if x is r.id else 'mu' if x is tok_mu else 'sigma' if x is tok_sg else 'name' if x == 'nm' else '?' for x in h) \
            if isinstance(h, tuple) else repr(type(h))
    finally:
        if old is None:
            del mod.hash
        else:
            mod.hash = old
    c = copy.deepcopy(r)
    facts['copy_rule'] = (c is not r, c.mu is tok_mu, c.sigma is tok_sg, c.name == 'nm', c.id == r.id, type(c) is R)
    facts['attrs'] = tuple(sorted(k for k in r.__dict__))
    m = Model()
    d = m.rating()
    facts['defaults'] = (d.mu, d.sigma, d.name, m.mu, m.sigma, m.beta, m.kappa, m.tau, m.limit_sigma)
    facts['hashable'] = isinstance(hash(R(1.0, 2.0)), int)
    facts['eq_self_copy'] = (R(1.0, 2.0) == R(1.0, 2.0), R(1.0, 2.0) != R(1.0, 2.5), R(1.0, 2.0) == 5, R(4.0, 1.0) < R(5.0, 1.0))
    # equal ordinals with different (mu, sigma), and mu order opposite to ordinal order
    pairs = [((25.0, 5.0), (28.0, 6.0)), ((28.0, 6.0), (25.0, 5.0)), ((25.0, 8.0), (20.0, 2.0)), ((20.0, 2.0), (25.0, 8.0)), ((10.0, 1.0), (10.0, 1.0))]
    facts['order_rules'] = tuple((R(*x) < R(*y), R(*x) <= R(*y), R(*x) > R(*y), R(*x) >= R(*y), R(*x) == R(*y)) for x, y in pairs)
    facts['model_attrs'] = tuple(sorted(k for k in m.__dict__ if not k.endswith('Rating')))
    facts['str_has_values'] = ('1.5' in str(R(1.5, 2.5)) and '2.5' in str(R(1.5, 2.5)), '1.5' in repr(R(1.5, 2.5)))
    return facts


def signature_facts():
    import openskill.models as M
    facts = {}
    names = None
    for key in H.ALL:
        Model = H.model_class(key)
        R = H.rating_class(key)
        pub = sorted(n for n, v in inspect.getmembers(Model, callable) if not n.startswith('__') or n == '__init__')
        sigs = {}
        for n in pub:
            try:
                sig = inspect.signature(getattr(Model, n))
            except (TypeError, ValueError):
                continue
            sigs[n] = [(p.name, p.kind.name, repr(p.default) if p.default is not inspect._empty and not callable(p.default) else ('<callable>' if callable(p.default) else '<none>'))
                       for p in sig.parameters.values()]
        rs = {}
        for n, v in inspect.getmembers(R, callable):
            if n.startswith('__') and n not in ('__init__', '__eq__', '__lt__', '__le__', '__gt__', '__ge__', '__hash__', '__deepcopy__', '__repr__', '__str__'):
                continue
            try:
                sig = inspect.signature(v)
            except (TypeError, ValueError):
                continue
            rs[n] = [(p.name, p.kind.name, repr(p.default) if p.default is not inspect._empty else '<none>') for p in sig.parameters.values()]
        facts[key] = {'model': sigs, 'rating': rs}
    reg = [c.__name__ for c in M.MODELS]
    return facts, reg


def run_bt2(spec, ctx):
    import z3
    from sx import core
    core.install()
    shape, ranks, ls = tuple(spec['shape']), tuple(spec['ranks']), spec['ls']
    H.set_facts(shape)
    base = H.domain(shape)
    mk = H.sym_maker()
    names = H.sym_names(shape)

    def run_with(mkf):
        res = []
        for key in ('btf', 'btp'):
            m, teams = H.build_game(H.model_class(key), shape, mkf, limit_sigma=ls)
            out = m.rate(teams, ranks=list(ranks))
            res.append([[(p.mu, p.sigma) for p in t] for t in out])
        return res
    for (kind, out), eng in core.iter_paths(lambda: run_with(mk), base, H.draw_fn(shape), opts={'deadline': ctx.deadline}):
        ctx.paths += 1
        if ctx.candidates:
            break
        if kind == 'exc':
            ctx.ob(f'bt2: path ends in {type(out).__name__}: {out}', 'unknown')
            ctx.add_engine(eng)
            continue
        a, b = out
        H.validate_shadows(ctx, eng, out, lambda env: run_with(H.float_maker(env)))
        if ctx.vacuity['checked'] == 0:
            H.vacuity_check(ctx, eng, core.lift(a[0][0][0]) == z3.Real(H.pname('mu', 0, 0)) + 12345)
        diffs = [d for d in (PR.terms_equal(x, y) for x, y in zip(H._flatten(a), H._flatten(b))) if d is not None]
        desc = f'BradleyTerryPart == BradleyTerryFull on two teams {shape}, ranks {ranks}, limit_sigma={ls}'
        if not diffs:
            ctx.ob(desc + ' (syntactic identity)', 'syntactic', sample={'shape': list(shape), 'ranks': list(ranks), 'limit_sigma': ls})
        else:
            neg = z3.Or(*diffs)
            r, m = eng.check(neg, timeout=60000)
            if r == 'sat':
                cands = [{'mode': 'bt2', 'shape': list(shape), 'ranks': list(ranks), 'ls': ls, 'inputs': inp}
                         for inp in H.witness_models(eng, neg, names, H.nice_pins(shape))]
                H.mark_last(cands)
                ctx.ob(desc, 'sat' if cands else 'unknown', cands)
            else:
                ctx.ob(desc, r)
        ctx.add_engine(eng)


def run_job(spec, ctx):
    mode = spec['mode']
    if mode == 'pred':
        return run_pred(spec, ctx)
    if mode == 'valid':
        return run_valid(spec, ctx)
    if mode == 'bt2':
        return run_bt2(spec, ctx)
    ctx.paths += 1
    ctx.vacuity['checked'] += 1
    ctx.vacuity['reach_sat'] += 1
    if mode == 'rating':
        facts = {k: _rating_facts(k) for k in H.ALL}
        for name in facts['pl']:
            vals = {k: facts[k][name] for k in H.ALL}
            same = all(v == vals['pl'] for v in vals.values())
            ctx.ob(f'rating rule "{name}" identical in the five classes' + ('' if same else f': {vals}'), 'unsat' if same else 'sat',
                   None if same else {'mode': 'rating', 'rule': name}, sample={'rule': name, 'value': repr(vals['pl'])[:200]})
        hr = facts['pl']['hash_rule']
        ctx.ob(f'hash rule is hash((id, mu, sigma)): {hr}', 'unsat' if hr == ('id', 'mu', 'sigma') else 'sat',
               None if hr == ('id', 'mu', 'sigma') else {'mode': 'rating', 'rule': 'hash_rule'})
        return
    facts, reg = signature_facts()
    for part in ('model', 'rating'):
        for key in H.ALL[1:]:
            a, b = facts['pl'][part], facts[key][part]
            diff = sorted(set(a) ^ set(b)) + [n for n in a if n in b and a[n] != b[n]]
            ctx.ob(f'{part} operations and signatures of {H.MODEL_NAMES[key]} == PlackettLuce (reflective check)' + (f': {diff}' if diff else ''),
                   'unsat' if not diff else 'sat', None if not diff else {'mode': 'sig', 'part': part, 'key': key},
                   sample={'class': key, 'operations': sorted(a)[:12]})
    want = [H.MODEL_NAMES[k] for k in H.ALL]
    ctx.ob(f'MODELS registry lists exactly the five model classes: {reg}', 'unsat' if sorted(reg) == sorted(want) and len(reg) == 5 else 'sat',
           None if sorted(reg) == sorted(want) and len(reg) == 5 else {'mode': 'sig', 'part': 'registry', 'key': 'pl'})


def replay(cand):
    mode = cand['mode']
    if mode == 'pred':
        op, shape, key, inp = cand['op'], tuple(cand['shape']), cand['key'], cand['inputs']
        res = _pred_all(op, shape, H.float_maker(inp))
        a, b = list(H._flatten(res['pl'])), list(H._flatten(res[key]))
        bad = len(a) != len(b) or any((abs(x - y) > 1e-12) if isinstance(x, float) else (x != y) for x, y in zip(a, b))
        return {'violated': bool(bad), 'key': f'pred:{op}:{key}',
                'detail': f'C19 {op} shape={shape} inputs={inp}: PlackettLuce {res["pl"]} vs {H.MODEL_NAMES[key]} {res[key]}'}
    if mode == 'valid':
        op, desc = cand['op'], cand['desc']
        oc = {k: _outcome_class(k, op, desc) for k in H.ALL}
        bad = len(set(oc.values())) > 1
        return {'violated': bool(bad), 'key': f'valid:{op}:{sorted(set(oc.values()))}', 'detail': f'C19 {op} on arguments {desc}: outcome classes {oc}'}
    if mode == 'bt2':
        shape, ranks, ls, inp = tuple(cand['shape']), tuple(cand['ranks']), cand['ls'], cand['inputs']
        res = []
        for key in ('btf', 'btp'):
            m, teams = H.build_game(H.model_class(key), shape, H.float_maker(inp), limit_sigma=ls)
            res.append(list(H._flatten([[(p.mu, p.sigma) for p in t] for t in m.rate(teams, ranks=list(ranks))])))
        bad = any(abs(x - y) > 1e-12 * max(1.0, abs(x)) for x, y in zip(*res))
        return {'violated': bool(bad), 'key': f'bt2:{H.shape_str(shape)}:{H.ranks_str(ranks)}',
                'detail': f'C19 two teams {shape} ranks {ranks} limit_sigma={ls} inputs={inp}: BT-full {res[0]} vs BT-part {res[1]}'}
    if mode == 'rating':
        facts = {k: _rating_facts(k) for k in H.ALL}
        name = cand['rule']
        vals = {k: facts[k][name] for k in H.ALL}
        bad = any(v != vals['pl'] for v in vals.values()) or (name == 'hash_rule' and vals['pl'] != ('id', 'mu', 'sigma'))
        return {'violated': bool(bad), 'key': f'rating:{name}', 'detail': f'C19 rating rule {name}: {vals}'}
    facts, reg = signature_facts()
    if cand['part'] == 'registry':
        return {'violated': sorted(reg) != sorted(H.MODEL_NAMES.values()), 'key': 'sig:registry', 'detail': f'C19 MODELS = {reg}'}
    a, b = facts['pl'][cand['part']], facts[cand['key']][cand['part']]
    diff = sorted(set(a) ^ set(b)) + [n for n in a if n in b and a[n] != b[n]]
    return {'violated': bool(diff), 'key': f'sig:{cand["part"]}:{cand["key"]}', 'detail': f'C19 signatures differ between PlackettLuce and {cand["key"]}: {diff}'}
