"""sx.fp -- mode F: exact IEEE-754 binary64 proxies (z3 FloatingPoint theory, RNE).

Used for the tiny float kernels whose property is about floats themselves
(ordinal() and the comparison dunders, C18).  Forks go through the same engine
as the real-valued proxies.
"""
import math

import z3

from sx import core

F64 = z3.Float64()
RNE = z3.RNE()


def fp_const(x):
    return z3.FPVal(float(x), F64)


class FSym:
    __slots__ = ('t', 's')

    def __init__(self, t, s=None):
        self.t = t
        if s is None:
            n = str(t)
            s = tuple(float(e[n]) for e in core.ENG.env)
        self.s = s

    @property
    def __class__(self):
        return float

    @staticmethod
    def _lift(o):
        if isinstance(o, FSym):
            return o.t, o.s
        if isinstance(o, bool):
            raise TypeError
        if isinstance(o, (int, float)):
            return fp_const(o), (float(o),) * len(core.ENG.env)
        raise TypeError

    def _bin(self, o, f, g, swap=False):
        try:
            t, s = self._lift(o)
        except TypeError:
            return NotImplemented
        if swap:
            return FSym(f(RNE, t, self.t), tuple(_safe(g, b, a) for a, b in zip(self.s, s)))
        return FSym(f(RNE, self.t, t), tuple(_safe(g, a, b) for a, b in zip(self.s, s)))

    def __add__(self, o):
        return self._bin(o, z3.fpAdd, lambda a, b: a + b)

    def __radd__(self, o):
        return self._bin(o, z3.fpAdd, lambda a, b: a + b, True)

    def __sub__(self, o):
        return self._bin(o, z3.fpSub, lambda a, b: a - b)

    def __rsub__(self, o):
        return self._bin(o, z3.fpSub, lambda a, b: a - b, True)

    def __mul__(self, o):
        return self._bin(o, z3.fpMul, lambda a, b: a * b)

    def __rmul__(self, o):
        return self._bin(o, z3.fpMul, lambda a, b: a * b, True)

    def __neg__(self):
        return FSym(z3.fpNeg(self.t), tuple(-x for x in self.s))

    def _cmp(self, o, f, g):
        try:
            t, s = self._lift(o)
        except TypeError:
            return NotImplemented
        return core.SymBool(f(self.t, t), [(g(a, b), True) for a, b in zip(self.s, s)])

    def __lt__(self, o):
        return self._cmp(o, z3.fpLT, lambda a, b: a < b)

    def __le__(self, o):
        return self._cmp(o, z3.fpLEQ, lambda a, b: a <= b)

    def __gt__(self, o):
        return self._cmp(o, z3.fpGT, lambda a, b: a > b)

    def __ge__(self, o):
        return self._cmp(o, z3.fpGEQ, lambda a, b: a >= b)

    def __eq__(self, o):
        return self._cmp(o, z3.fpEQ, lambda a, b: a == b)

    def __ne__(self, o):
        return self._cmp(o, lambda a, b: z3.Not(z3.fpEQ(a, b)), lambda a, b: a != b)

    def __bool__(self):
        return core.ENG.branch(z3.Not(z3.fpIsZero(self.t)), [(x != 0, True) for x in self.s])

    __hash__ = None

    def __deepcopy__(self, memo):
        return self

    def __repr__(self):
        return f'FSym<{self.t}>'


def _safe(g, a, b):
    try:
        return g(a, b)
    except OverflowError:
        return math.inf


def finite(t):
    return z3.And(z3.Not(z3.fpIsNaN(t)), z3.Not(z3.fpIsInf(t)))


def fp_value(model, name):
    v = model.eval(z3.FP(name, F64), model_completion=True)
    if z3.is_fprm_value(v):
        raise ValueError
    s = str(v)
    if z3.fpIsNaN(v) is True:
        return float('nan')
    try:
        sig = v.significand_as_long()
        exp = v.exponent_as_long(biased=True)
        sign = v.sign()
        import struct
        bits = (int(bool(sign)) << 63) | (exp << 52) | sig
        return struct.unpack('<d', struct.pack('<Q', bits))[0]
    except Exception:  # noqa: BLE001
        return float(eval(s)) if s not in ('+oo', '-oo', 'NaN') else float(s.replace('oo', 'inf'))
