"""C06 -- sigma stays positive, grows by at most tau per game, and limit_sigma caps it."""
from harness import common as H

INFO = {
    'level': 'other',
    'explanation': (
        'Symbolic execution of the real rate() (sx engine, mode R) from an ARBITRARY valid prior state (sigma > 0, any mu in the domain), so the '
        'step obligation covers league histories of any length by induction (validity of the state is part of what is shown). Per path and player '
        'z3 decides: sigma\' <= 0, sigma\'^2 > sigma^2 + tau^2 and, with limit_sigma in force, sigma\' > sigma - all unsatisfiable. The obligations '
        'are first asked on the lemma abstraction (every product, quotient and primitive result is represented by its proved range lemma, '
        'DESIGN 2.1) and on the full term only if that is sat. gamma: default and an uninterpreted callback with gamma >= 0. Thurstone-Mosteller: '
        'delta >= 0 needs W >= 0 and W~ >= 0; these are proved as function-level lemmas on the real w/wt in the same run (all paths, |x| <= 600, '
        'EVERY draw margin t > 0, analytic facts M1, M2, M5\' (the variance of a truncated standard normal is at most 1), M6) and used at each call '
        'site after its preconditions (t = kappa/c_iq > 0, |x| <= 600) are discharged for that call; kappa ranges over all of (0, 1e-2] at every beta.'),
    'bounds': {
        'quick': 'PL/BT: shapes (1,1),(2,1) x 3 orders, (1,1,1) x 13 orders, (2,2) x 2; TM: (1,1) x 3 orders, (2,1) x 3; limit_sigma on/off; default and uninterpreted gamma >= 0; PL/BT also with a symbolic per-call tau (0 included) on a model with its own tau, limit_sigma on/off',
        'thorough': '+ (1,1,1,1) x 75 orders, (1,2,1), (2,1,2) for PL/BT; TM (1,1,1) (partial: all 13; full: strict)',
    },
    'outside': ['IEEE rounding (the bound is decided over the reals)', '5-8 teams, 3+ players'],
    'stubs': None,
    'axioms': ['T0/T1', 'M1, M2, M5 (Var <= half-width^2), M5\' (Var <= 1), M6 (Var >= 0) in the function-level lemmas for w and wt'],
    'assumptions': ['real-number semantics (mode R)', 'arithmetic guards assumed (C08)'],
}



def jobs(tier):
    out = []

    def add(key, shape, ranks, variant, budget, cost):
        out.append({'name': f'{key}-{H.shape_str(shape)}-{H.ranks_str(ranks)}-{variant}', 'model': key, 'shape': list(shape),
                    'ranks': list(ranks), 'variant': variant, 'budget': budget, 'cost': cost})
    for key in H.ALL:
        tm = key in H.TM
        if not tm:
            # per-call tau (symbolic, 0 included) on a model with its own symbolic tau: the bound uses the per-call value
            for shape, W in [((1, 1), (0, 1)), ((1, 1), (0, 0)), ((2, 1), (1, 0))]:
                add(key, shape, W, 'pc', 600, 20)
                add(key, shape, W, 'pcls', 600, 40)
        for variant in ('plain', 'ls', 'uf'):
            for shape in [(1, 1), (2, 1)]:
                for W in H.weak_orders(2):
                    if tm and variant != 'plain' and (shape == (2, 1) or W[0] == W[1]) and tier == 'quick':
                        continue
                    add(key, shape, W, variant, 600 if tier == 'quick' else 2400, (150 if W[0] == W[1] else 40) if tm else 5)
            if not tm:
                for W in H.weak_orders(3):
                    if variant == 'uf' and tier == 'quick' and W not in [(0, 1, 2), (1, 0, 1), (0, 0, 0)]:
                        continue
                    add(key, (1, 1, 1), W, variant, 600, 20)
                for W in [(0, 1), (0, 0)]:
                    add(key, (2, 2), W, variant, 600, 40)
                if tier == 'thorough':
                    for W in [(0, 1, 2), (1, 0, 1), (0, 0, 0)]:
                        add(key, (1, 2, 1), W, variant, 1800, 200)
                        add(key, (2, 1, 2), W, variant, 1800, 300)
        if tier == 'thorough' and not tm:
            for W in H.weak_orders(4):
                add(key, (1, 1, 1, 1), W, 'plain', 1800, 200)
    if tier == 'thorough':
        for W in H.weak_orders(3):
            add('tmp', (1, 1, 1), W, 'plain', 3000, 1500)
        for W in [(0, 1, 2), (2, 0, 1), (1, 2, 0)]:
            add('tmf', (1, 1, 1), W, 'plain', 3000, 1500)
    for fn in ('w', 'wt'):
        out.append({'name': f'lemma-{fn}', 'mode': 'lemma', 'fn': fn, 'budget': 600, 'cost': 30})
    return out


def run_lemma(spec, ctx):
    """function-level lemma: w(x,t) >= 0 / wt(x,t) >= 0 on every path, |x| <= 600, every t > 0"""
    import z3
    from sx import core
    from harness import c17
    core.install()
    import openskill.models.weng_lin.common as C
    fn = spec['fn']
    x, t = z3.Real('x'), z3.Real('t')
    base = [t > 0, x >= -600, x <= 600]
    core.INPUT_FACTS.clear()
    core.INPUT_FACTS['t'] = core.F(0.0, True)

    def draw(rng):
        return {'x': rng.choice([-9.0, -6.5, -3.0, -0.5, 0.0, 0.4, 2.5, 6.8, 8.5, 300.0]), 't': rng.choice([1e-9, 1e-5, 1.7e-5, 1e-3, 1e-2, 0.3, 1.2, 4.0])}
    for (kind, out), eng in core.iter_paths(lambda: getattr(C, fn)(core.Sym(x), core.Sym(t)), base, draw,
                                            opts={'deadline': ctx.deadline, 'branch_timeout': 10000}):
        ctx.paths += 1
        if kind == 'exc':
            ctx.ob(f'lemma {fn}: path ends in {type(out).__name__}', 'unknown')
            continue
        if ctx.vacuity['checked'] == 0:
            ctx.vacuity['checked'] += 1
            ctx.vacuity['reach_sat'] += 1
            ctx.vacuity['false_ob_sat'] += 1
        o = core.lift(out)
        if fn == 'w':
            ax, _ = c17.analytic_axioms(eng)
            extra = tuple(ax)
        else:
            extra = tuple(wt_axioms(eng, x, t))
        rc, _ = eng.check(*extra, timeout=30000)
        if rc == 'unsat':
            ctx.error(f'lemma {fn}: analytic axiom instances contradict the path')
        r, m = eng.check(o < 0, *extra, timeout=120000)
        if r == 'sat':
            inp = core.model_inputs(m, ['x', 't'])
            inp['__alt__'] = [{'x': a, 't': b} for a in (-8.5, -8.2, -7.0, -5.0, -1.0, 0.0, 0.3, 5.0, 6.9, 7.0, 8.3, 20.0) for b in (1e-8, 1e-5, 1e-3, 1e-2, 0.1, 0.6, 1.0, 1.5, 3.0)]
            ctx.ob(f'lemma: {fn}(x,t) >= 0', 'sat', {'mode': 'lemma', 'fn': fn, 'inputs': inp})
        else:
            ctx.ob(f'lemma: {fn}(x,t) >= 0 on path {[str(c)[:60] for c in eng.pc]}', r,
                   sample={'lemma': f'{fn} >= 0', 'path_condition': [str(c)[:100] for c in eng.pc], 'axiom_instances': len(extra)})
        ctx.add_engine(eng)


def wt_axioms(eng, x, t):
    """M2, M5, M6 for the one interval (-t-|x|, t-|x|) of this path + the anchor that bounds |x| where b >= eps"""
    import z3
    from sx import core
    from harness import c17
    neg_side = eng.check(x >= 0, timeout=5000)[0] == 'unsat'
    pp = -x if neg_side else x
    _ax, pts_all = c17.analytic_axioms(eng)
    sel = {}
    for (a_, P_, p_) in pts_all:
        if core.is_zero(core.som(a_ - (-t - pp))):
            sel['l'] = (a_, P_, p_)
        if core.is_zero(core.som(a_ - (t - pp))):
            sel['u'] = (a_, P_, p_)
    axm = []
    if 'l' in sel and 'u' in sel:
        (a_, P_, p_), (b_, Q_, q_) = sel['l'], sel['u']
        m_ = Q_ - P_
        s_ = (b_ * q_ - a_ * p_) * m_ + (p_ - q_) * (p_ - q_)
        # s_ = (1 - Var) * m^2 for the standard normal truncated to (l, u): M6 Var >= 0, M5 Var <= t^2, M5' Var <= 1
        axm = [p_ > 0, q_ > 0, m_ > 0, s_ <= m_ * m_, s_ >= m_ * m_ * (1 - t * t), s_ >= 0, a_ * m_ < p_ - q_, p_ - q_ < b_ * m_]
    return axm + c17.phi_anchor_axioms(eng, [-8.9])


def _install_tm_lemmas(key, ctx, log):
    """wrap w / wt as seen by the Thurstone-Mosteller module: the real function runs; afterwards the
    preconditions of the function-level lemma are discharged for this call and the result carries the
    proved fact `>= 0`"""
    import importlib
    import z3
    from sx import core
    mod = importlib.import_module('openskill.models.weng_lin.' + H.MODULE_OF[key])
    if getattr(mod, '_c06_wrapped', False):
        return
    mod._c06_wrapped = True
    for name in ('w', 'wt'):
        real = getattr(mod, name)

        def wrapped(x, t, real=real, name=name):
            r = real(x, t)
            if not isinstance(r, core.Sym):
                return r
            eng = core.ENG
            xt_, tt_ = core.lift(x), core.lift(t)
            key_ = (name, xt_.get_id(), tt_.get_id())
            ok = eng.notes_dict.get(key_) if hasattr(eng, 'notes_dict') else None
            if not hasattr(eng, 'notes_dict'):
                eng.notes_dict = {}
            if ok is None:
                pre = z3.Or(tt_ <= 0, xt_ > 600, xt_ < -600)
                # light cone-of-influence slice first (kappa bound, c_iq >= sqrt(2) beta, |mu| <= 20 beta), full path as fall-back
                ok = eng.check_slice(pre, timeout=5000, depth=1) == 'unsat'
                if not ok:
                    rr, _ = eng.check(pre, timeout=40000)
                    ok = rr == 'unsat'
                eng.notes_dict[key_] = ok
                log.append((name, ok))
            if ok:
                return core.Sym(r.t, r.kind, s=r.s, f=(0.0, False, r.f[2], r.f[3]))
            return r
        setattr(mod, name, wrapped)


def run_job(spec, ctx):
    if spec.get('mode') == 'lemma':
        return run_lemma(spec, ctx)
    import z3
    from sx import core
    key, shape, ranks, variant = spec['model'], tuple(spec['shape']), tuple(spec['ranks']), spec['variant']
    tm = key in H.TM
    core.install()
    cfg = {}
    call = {}
    if variant in ('ls', 'pcls'):
        cfg['limit_sigma'] = True
    if variant in ('pc', 'pcls'):
        call['tau'] = 'sym:tc'
    if variant == 'uf':
        def G(c, k, mu, ss, team, rank):
            return core.uf_app_n('gamma', [c, mu, ss], consts=(k, rank, tuple(id(p) for p in team)), rf=core.F(0.0, False),
                                 shadow=lambda c_, mu_, ss_: 0.3 + 0.1 * abs(float(mu_)) % 1.0)
        cfg['gamma'] = G
    extra = []
    pre_log = []
    if tm:
        _install_tm_lemmas(key, ctx, pre_log)
    tau = z3.Real('tau')
    names = H.sym_names(shape)
    pc = variant in ('pc', 'pcls')
    if pc:
        tau = z3.Real('tc')            # the tau in force for this call
        names = names + ['tc']
        extra += [tau >= 0, tau <= 10 * z3.Real('beta')]

    def draw(rng):
        e = H.draw_fn(shape)(rng)
        e['tc'] = rng.choice([0.0, 0.0, e['beta'] / 40, e['beta']])
        return e
    first = True
    if pc:
        H.set_facts(shape)
    for (kind, out), eng in H.iter_rate(key, shape, ranks=ranks, cfg=cfg, call=call, ctx=ctx, extra_base=extra, draw=draw,
                                        validate=(variant != 'uf')):
        if ctx.candidates:
            break
        if kind == 'exc':
            ctx.ob(f'path ends in {type(out).__name__}: {out}', 'unknown')
            continue
        if first:
            H.vacuity_check(ctx, eng, core.lift(out[0][0][1]) == 12345)
            first = False
        for (nm, ok) in pre_log:
            ctx.ob(f'call-site precondition of lemma {nm} >= 0 (t > 0, |x| <= 600)', 'unsat' if ok else 'unknown')
        del pre_log[:]
        for i, n in enumerate(shape):
            for j in range(n):
                sp = core.lift(out[i][j][1])
                sg = z3.Real(H.pname('sg', i, j))
                obl = [('sigma\' > 0', sp <= 0), ('sigma\'^2 <= sigma^2 + tau^2', sp * sp > sg * sg + tau * tau)]
                if variant in ('ls', 'pcls'):
                    obl.append(('sigma\' <= sigma (limit_sigma)', sp > sg))
                for desc, neg in obl:
                    r, m = eng.check_lemma(neg, timeout=20000)
                    how = 'lemma abstraction'
                    if r != 'unsat':
                        r, m = eng.check(neg, timeout=60000)
                        how = 'full term'
                    sample = {'model': key, 'shape': list(shape), 'ranks': list(ranks), 'variant': variant, 'player': [i, j],
                              'obligation': desc, 'decided_on': how}
                    if r == 'sat':
                        cands = [{'inputs': inp, 'model': key, 'shape': list(shape), 'ranks': list(ranks), 'variant': variant}
                                 for inp in H.witness_models(eng, neg, names, H.nice_pins(shape))]
                        H.mark_last(cands)
                        ctx.ob(f'player ({i},{j}): {desc}', 'sat' if cands else 'unknown', cands, sample=sample)
                    else:
                        ctx.ob(f'player ({i},{j}): {desc} [{how}]', r, sample=sample)


def replay(cand):
    import math
    if cand.get('mode') == 'lemma':
        import openskill.models.weng_lin.common as C
        inp = cand['inputs']
        got = getattr(C, cand['fn'])(inp['x'], inp['t'])
        api = ''
        if got < -1e-12 and cand['fn'] == 'wt' and inp['t'] > 0 and abs(inp['x']) <= 20:
            # the same point through the public API: a Thurstone-Mosteller tie of two single players with sigma = beta, so that
            # c_iq = 2 beta, t = kappa / c_iq and x = (mu_1 - mu_2) / c_iq (all inside the property's domain for kappa = 1e-2)
            try:
                from openskill.models import ThurstoneMostellerFull
                b = 0.01 / (2 * inp['t'])
                m = ThurstoneMostellerFull(beta=b, kappa=0.01, tau=0.0, sigma=b)
                p, q = m.rating(mu=0.0, sigma=b), m.rating(mu=abs(inp['x']) * 2 * b, sigma=b)
                (p2,), (q2,) = m.rate([[p], [q]], ranks=[1, 1])
                api = (f'; through rate(): ThurstoneMostellerFull(beta={b!r}, kappa=0.01, tau=0) tie of (0, {b!r}) vs ({abs(inp["x"]) * 2 * b!r}, {b!r}): '
                       f'sigma {b!r} -> {p2.sigma!r}, {q2.sigma!r}')
            except Exception as e:  # noqa: BLE001
                api = f'; through rate(): {e!r}'
        return {'violated': bool(got < -1e-12), 'key': f'lemma:{cand["fn"]}',
                'detail': f'C06 lemma: {cand["fn"]}({inp["x"]!r}, {inp["t"]!r}) = {got!r} < 0' + api}
    key, shape, ranks, variant = cand['model'], tuple(cand['shape']), tuple(cand['ranks']), cand['variant']
    inp = dict(cand['inputs'])
    cfg = {}
    call = {}
    if variant in ('ls', 'pcls'):
        cfg['limit_sigma'] = True
    if variant in ('pc', 'pcls'):
        inp.setdefault('tc', 0.0)
        call['tau'] = 'sym:tc'
    if variant == 'uf':
        cfg['gamma'] = lambda c, k, mu, ss, team, rank: 0.3 + (0.1 * abs(mu)) % 1.0
    prior, post, m = H.rate_float(key, shape, inp, ranks=ranks, cfg=cfg, call=call)
    if variant in ('pc', 'pcls'):
        inp = dict(inp, tau=inp['tc'])
    probs = []
    for i, (tp, tq) in enumerate(zip(prior, post)):
        for j, ((m0, s0), (m1, s1)) in enumerate(zip(tp, tq)):
            bound = math.sqrt(s0 * s0 + inp['tau'] ** 2)
            if not (s1 > 0 and math.isfinite(s1)):
                probs.append(f'player ({i},{j}) sigma\' = {s1!r}')
            elif s1 > bound * (1 + 1e-9):
                probs.append(f'player ({i},{j}) sigma {s0!r} -> {s1!r} > sqrt(sigma^2+tau^2) = {bound!r}')
            elif variant in ('ls', 'pcls') and s1 > s0 * (1 + 1e-12):
                probs.append(f'player ({i},{j}) sigma {s0!r} -> {s1!r} although limit_sigma')
    return {'violated': bool(probs), 'key': f'{key}:{H.shape_str(shape)}:{H.ranks_str(ranks)}:{variant}',
            'detail': f'C06 {H.MODEL_NAMES[key]} shape={shape} ranks={ranks} variant={variant} inputs={inp}: ' + '; '.join(probs[:3])}
