"""C15 -- per-call tau / limit_sigma mean exactly what the model-level setting means."""
from harness import common as H

INFO = {
    'level': 'other',
    'explanation': (
        'Two-run symbolic execution of the real rate() in one path (sx engine, mode R): Model(tau=t).rate(g) against '
        'Model(tau=T0).rate(g, tau=t) with t >= 0 and T0 >= 0 both symbolic (the fork at t == 0 is explored because the code tests '
        'the truthiness of tau), Model(limit_sigma=b).rate(g) against Model(limit_sigma=b0).rate(g, limit_sigma=b) for all b, b0, and '
        'argument omitted/None against the model\'s own setting. Both runs share their primitive applications, so on the unchanged '
        'tree the result terms are syntactically identical; otherwise z3 decides the disequality and the model is replayed in floats.'),
    'bounds': {
        'quick': 'five models x shapes (1,1),(2,1) x {win, tie}, (1,1,1) x 2 outcomes [TM: (1,1) only]; t, T0, mu, sigma, beta, kappa symbolic; b, b0 in {True, False}',
        'thorough': '+ (2,2), (1,2,1), TM (2,1)',
    },
    'outside': ['IEEE rounding', 'larger games (the option handling does not depend on the game)'],
    'stubs': None,
    'axioms': ['T0/T1 (DESIGN 2.2)'],
    'assumptions': ['real-number semantics (mode R)'],
}


def jobs(tier):
    out = []

    def add(key, shape, ranks, clause, budget, cost=None):
        out.append({'name': f'{key}-{H.shape_str(shape)}-{H.ranks_str(ranks)}-{clause}', 'model': key, 'shape': list(shape),
                    'ranks': list(ranks), 'clause': clause, 'budget': budget, 'cost': cost or budget})
    for key in H.ALL:
        tm = key in H.TM
        cells = [((1, 1), (0, 1)), ((1, 1), (0, 0))]
        if not tm:
            cells += [((2, 1), (1, 0)), ((2, 1), (0, 0)), ((1, 1, 1), (1, 0, 1)), ((1, 1, 1), (2, 0, 1))]
        if tier == 'thorough':
            if tm:
                cells += [((2, 1), (1, 0))]
            else:
                cells += [((2, 2), (0, 1)), ((1, 2, 1), (0, 1, 1))]
        for shape, ranks in cells:
            for clause in ('tau', 'ls', 'omit', 'tauls'):
                if tm and clause == 'tauls' and tier == 'quick' and ranks[0] == ranks[1]:
                    continue
                if tm and clause != 'tau' and ranks[0] == ranks[1] and tier == 'quick':
                    continue  # TM ties: 9 numeric paths x 4 clamp paths x 4 variants; thorough only
                add(key, shape, ranks, clause, (300 if tier == 'quick' else 1800) if tm else 200, 60 if tm else 10)
    return out


def _variants(clause):
    """list of (label, cfgA, callA, cfgB, callB) using symbol names 't', 'T0'"""
    if clause == 'tau':
        return [('tau', {'tau': 't'}, {}, {'tau': 'T0'}, {'tau': 't'}),
                # the per-call value written as a Python int (rate(g, tau=0), tau=1, ...): same meaning as the float
                ('tau int-typed', {'tau': 't'}, {}, {'tau': 'T0'}, {'tau': 'int:t'})]
    if clause == 'tauls':
        # both options at once: the resolved per-call tau must be the one every later step sees
        v = []
        for b in (True, False):
            v.append((f'tau with model-level limit_sigma={b}', {'tau': 't', 'limit_sigma': b}, {}, {'tau': 'T0', 'limit_sigma': b}, {'tau': 't'}))
            v.append((f'tau and limit_sigma={b} per call', {'tau': 't', 'limit_sigma': b}, {}, {'tau': 'T0', 'limit_sigma': not b}, {'tau': 't', 'limit_sigma': b}))
        return v
    if clause == 'ls':
        v = []
        for b in (True, False):
            for b0 in (True, False):
                v.append((f'ls b={b} b0={b0}', {'tau': 't', 'limit_sigma': b}, {}, {'tau': 't', 'limit_sigma': b0}, {'limit_sigma': b}))
        return v
    v = []
    for b in (True, False):
        v.append((f'omit b={b}', {'tau': 't', 'limit_sigma': b}, {}, {'tau': 't', 'limit_sigma': b}, {'tau': None, 'limit_sigma': None}))
    return v


def _resolve(d, mk):
    out = {}
    for k, v in d.items():
        if isinstance(v, str) and v.startswith('int:'):
            x = mk(v[4:])
            if type(x) is float:
                x = int(x)          # replay: a Python int
            else:
                x = type(x)(x.t, int, s=x.s, f=x.f)   # symbolic run: same term, Python kind int
            out[k] = x
        else:
            out[k] = mk(v) if isinstance(v, str) else v
    return out


def _run_pair(key, shape, ranks, variant, mk):
    Model = H.model_class(key)
    label, cfgA, callA, cfgB, callB = variant
    res = []
    for cfg, call in ((cfgA, callA), (cfgB, callB)):
        c = _resolve(cfg, mk)
        kw = dict(beta=mk('beta'), kappa=mk('kappa'))
        kw.update(c)
        m = Model(**kw)
        teams = [[m.rating(mk(H.pname('mu', i, j)), mk(H.pname('sg', i, j))) for j in range(n)] for i, n in enumerate(shape)]
        out = m.rate(teams, ranks=list(ranks), **_resolve(call, mk))
        res.append([[(p.mu, p.sigma) for p in t] for t in out])
    return res


def _draw(shape, int_t=False):
    base = H.draw_fn(shape)

    def draw(rng):
        e = base(rng)
        e['t'] = rng.choice([0.0, 0.0, e['beta'] / 50, e['beta']]) if not int_t else float(rng.choice([0, 0, 1, 2]))
        e['T0'] = rng.choice([0.0, e['beta'] / 50, e['beta'] / 3])
        return e
    return draw


def run_job(spec, ctx):
    import z3
    from sx import core
    core.install()
    key, shape, ranks, clause = spec['model'], tuple(spec['shape']), tuple(spec['ranks']), spec['clause']
    H.set_facts(shape)
    core.INPUT_FACTS['t'] = core.F(0.0, False)
    core.INPUT_FACTS['T0'] = core.F(0.0, False)
    t, T0, beta = z3.Real('t'), z3.Real('T0'), z3.Real('beta')
    base = [c for c in H.domain(shape) if 'tau' not in str(c)] + [t >= 0, T0 >= 0, t <= 10 * beta, T0 <= 10 * beta]
    mk = H.sym_maker()
    names = [n for n in H.sym_names(shape) if n != 'tau'] + ['t', 'T0']
    for variant in _variants(clause):
        first = True
        stats = {}
        vbase = base + ([z3.IsInt(t)] if 'int-typed' in variant[0] else [])
        for (kind, out), eng in core.iter_paths(lambda: _run_pair(key, shape, ranks, variant, mk), vbase, _draw(shape, 'int-typed' in variant[0]),
                                                opts={'deadline': ctx.deadline}, stats=stats):
            ctx.paths += 1
            if ctx.candidates:
                break
            if kind == 'exc':
                ctx.ob(f'{variant[0]}: path ends in {type(out).__name__}: {out}', 'unknown')
                ctx.add_engine(eng)
                continue
            a, b = out
            H.validate_shadows(ctx, eng, out, lambda env: _run_pair(key, shape, ranks, variant, H.float_maker(env)))
            if first:
                H.vacuity_check(ctx, eng, core.lift(a[0][0][0]) == z3.Real(H.pname('mu', 0, 0)) + 12345)
                first = False
            diffs = []
            for ta, tb in zip(a, b):
                for (ma, sa), (mb, sb) in zip(ta, tb):
                    for x, y in ((ma, mb), (sa, sb)):
                        tx, ty = core.lift(x), core.lift(y)
                        if tx.eq(ty) or core.is_zero(core.som(tx - ty)):
                            continue
                        diffs.append(tx != ty)
            if not diffs:
                ctx.ob(f'{variant[0]}: per-call == model-level (syntactic identity of result terms)', 'syntactic',
                       sample={'model': key, 'shape': list(shape), 'ranks': list(ranks), 'variant': variant[0],
                               'path_condition': [str(c) for c in eng.pc][:6]})
            else:
                neg = z3.Or(*diffs)
                r, m = eng.check(neg, timeout=60000)
                if r == 'sat':
                    cands = [{'inputs': inp, 'model': key, 'shape': list(shape), 'ranks': list(ranks), 'clause': clause,
                              'variant': variant[0]} for inp in H.witness_models(eng, neg, names, H.nice_pins(shape)[:2])]
                    H.mark_last(cands)
                    ctx.ob(f'{variant[0]}: per-call == model-level', 'sat' if cands else 'unknown', cands)
                elif r == 'unknown':
                    # undecided (integer-valued t inside QF_NRA): the result terms are NOT the same term, so corner points of the
                    # domain are replayed on the real code; only a reproduced difference is reported, otherwise it stays inconclusive
                    pts = [e for e in H.corner_inputs(names, 40) if all(n in e for n in names)]
                    cands = [{'inputs': dict(pts[0], __alt__=pts[1:]), 'model': key, 'shape': list(shape), 'ranks': list(ranks), 'clause': clause,
                              'variant': variant[0]}] if pts else []
                    ctx.ob(f'{variant[0]}: per-call == model-level (undecided by z3; corner points replayed)', 'sat' if cands else 'unknown', cands or None)
                else:
                    ctx.ob(f'{variant[0]}: per-call == model-level', r)
            ctx.add_engine(eng)
        ctx.add_stats({k: v for k, v in stats.items() if k != 'paths'})


def replay(cand):
    key, shape, ranks, clause = cand['model'], tuple(cand['shape']), tuple(cand['ranks']), cand['clause']
    inp = dict(cand['inputs'])
    inp.setdefault('tau', inp.get('t', 0.0))
    variant = [v for v in _variants(clause) if v[0] == cand['variant']][0]
    a, b = _run_pair(key, shape, ranks, variant, H.float_maker(inp))
    worst = 0.0
    for ta, tb in zip(a, b):
        for (ma, sa), (mb, sb) in zip(ta, tb):
            worst = max(worst, abs(ma - mb) / max(abs(ma), abs(mb), inp['beta']), abs(sa - sb) / max(abs(sa), abs(sb), 1e-300))
    if 'int-typed' in cand['variant']:
        inp['t'] = float(int(round(inp.get('t', 0.0))))
    tz = 'tau=0' if inp.get('t') == 0 else 'tau>0'
    return {'violated': bool(worst > 1e-12),
            'key': f'{key}:{cand["variant"]}:{tz}',
            'detail': f'C15 {H.MODEL_NAMES[key]} shape={shape} ranks={ranks} {cand["variant"]} inputs={inp}: model-level run {a} vs per-call run {b}'}
