"""C12 -- predictions equal their documented pairwise-Gaussian closed forms."""
from harness import common as H
from harness import predict as PR

INFO = {
    'level': 'other',
    'explanation': (
        'Symbolic execution of the real predict_win / predict_draw / predict_rank (sx engine, mode R; Phi an Ackermannised application with '
        'eager congruence, Phi^-1 of the concrete (1+1/N)/2 evaluated by the library) and, in the same path, of the closed forms written in '
        'the property (ref/wenglin.py). mu, sigma (including sigma = 0) and beta are symbolic over the whole domain. Per value z3 decides '
        'code != closed form unsatisfiable; on the unchanged tree the terms are syntactically identical after normalisation. sat models are '
        'replayed in floats against an mpmath evaluation (50 digits) of the closed form at 1e-9 absolute.'),
    'bounds': {
        'quick': 'five models x three operations x shapes (1,1),(2,1),(2,2),(1,1,1),(1,2,1),(1,1,1,1),(3,2),(2,2,2),(1,2,1,2),(1,1,1,1,1), eight teams of eight',
        'quick+': 'aliasing cells: the same team list entered as first and last team for (1,1), (2,1,2), (1,1,1,1), the latter also with one rating object in two teams',
        'thorough': '+ (8,8), 6x1, 7x1, 8x1, (3,1,4,1,5), (2,3,2,3,2,3), (8,1,8), (1,2,...,8), (8,7,...,2)',
    },
    'outside': ['IEEE rounding of the evaluation (the 1e-9 absolute figure is only evaluated in replays)', 'shapes not listed (the code is shape-generic; listed shapes reach 8 teams and 8 players)'],
    'stubs': ['predict_rank jobs: _rank_data (module global of the model file) replaced by a constant ranking - the rank assignment is decided in C11; the probabilities under test are computed before it'],
    'axioms': ['T0/T1 for Phi'],
    'assumptions': ['real-number semantics (mode R)', 'Phi^-1((1+1/N)/2) is the library\'s float value in both code and closed form'],
}

SHAPES_Q = [(1, 1), (2, 1), (2, 2), (1, 1, 1), (1, 2, 1), (1, 1, 1, 1), (3, 2), (2, 2, 2), (1, 2, 1, 2), (1, 1, 1, 1, 1), (8,) * 8]
SHAPES_T = SHAPES_Q + [(8, 8), (1,) * 6, (1,) * 7, (1,) * 8, (3, 1, 4, 1, 5), (2, 3, 2, 3, 2, 3), (8, 1, 8), (1, 2, 3, 4, 5, 6, 7, 8), (8, 7, 6, 5, 4, 3, 2)]


def jobs(tier):
    out = []
    for key in H.ALL:
        for op in PR.OPS:
            for shape in (SHAPES_Q if tier == 'quick' else SHAPES_T):
                n = len(shape)
                cost = n * n
                out.append({'name': f'{key}-{op}-{H.shape_str(shape)}', 'model': key, 'op': op, 'shape': list(shape),
                            'budget': 300 if tier == 'quick' else 1800, 'cost': cost})
            # the same list object entered as the first and the last team (and, for three teams, the same rating object in two teams)
            for shape in ((1, 1), (2, 1, 2), (1, 1, 1, 1)):
                out.append({'name': f'{key}-{op}-{H.shape_str(shape)}-alias', 'model': key, 'op': op, 'shape': list(shape), 'alias': True,
                            'budget': 300 if tier == 'quick' else 1800, 'cost': len(shape) ** 2})
            # two teams made of the same players (equal ids) at different values: a stored snapshot next to the current team
            for shape in ((2, 1, 2), (1, 1, 1, 1)):
                out.append({'name': f'{key}-{op}-{H.shape_str(shape)}-snapshot', 'model': key, 'op': op, 'shape': list(shape), 'alias': 'snapshot',
                            'budget': 300 if tier == 'quick' else 1800, 'cost': len(shape) ** 2})
    return out


def _ref(op, P, prior, beta, inv_cdf):
    from ref import wenglin as R
    if op == 'predict_win':
        return R.predict_win_ref(P, prior, beta)
    if op == 'predict_draw':
        return R.predict_draw_ref(P, prior, beta, inv_cdf)
    return R.predict_rank_probs_ref(P, prior, beta, inv_cdf)


def _teams(m, shape, mkf, alias):
    teams = PR.build_teams(m, shape, mkf)
    if alias == 'snapshot':
        # the last team is a stored snapshot of the first one: deep copies keep the player ids, the values have moved on
        import copy
        snap = copy.deepcopy(teams[0])
        for p, q in zip(snap, teams[-1]):
            p.mu, p.sigma = q.mu, q.sigma
        teams[-1] = snap
    elif alias:
        teams[-1] = teams[0]
        if len(shape) == 4:
            teams[2] = [teams[1][0]]  # the same rating object in two different team lists
    return teams


def run_job(spec, ctx):
    import z3
    from sx import core
    core.install()
    key, op, shape = spec['model'], spec['op'], tuple(spec['shape'])
    Model = H.model_class(key)
    if op == 'predict_rank':
        # the closed form concerns the probabilities; the rank assignment (sorting forks) is C11's subject
        import importlib
        importlib.import_module('openskill.models.weng_lin.' + H.MODULE_OF[key])._rank_data = lambda v: list(range(1, len(v) + 1))
    PR.set_pred_facts(shape)
    base = PR.pred_domain(shape)
    mk = H.sym_maker()
    SM, SN = core.SymMath(), core.StubNormal()

    class P:
        sqrt = staticmethod(SM.sqrt)
        exp = staticmethod(SM.exp)
        cdf = staticmethod(SN.cdf)
        pdf = staticmethod(SN.pdf)
        max = staticmethod(core.sym_max)

    def run_with(mkf, prims):
        m = Model(beta=mkf('beta'))
        teams = _teams(m, shape, mkf, spec.get('alias'))
        prior = [[(p.mu, p.sigma) for p in t] for t in teams]
        code = PR.call(m, op, teams)
        if op == 'predict_rank':
            code = [x[1] for x in code]
        ref = _ref(op, prims, prior, mkf('beta'), SN.inv_cdf)
        return code, ref

    from ref import wenglin as R
    names = PR.pred_names(shape)
    first = True
    stats = {}
    for (kind, out), eng in core.iter_paths(lambda: run_with(mk, P), base, PR.pred_draw(shape), opts={'deadline': ctx.deadline},
                                            stats=stats):
        ctx.paths += 1
        if ctx.candidates:
            break
        if kind == 'exc':
            ctx.ob(f'path ends in {type(out).__name__}: {out}', 'unknown')
            ctx.add_engine(eng)
            continue
        code, ref = out
        H.validate_shadows(ctx, eng, code, lambda env: run_with(H.float_maker(env), R.FloatPrims)[0])
        cl = code if isinstance(code, list) else [code]
        rl = ref if isinstance(ref, list) else [ref]
        if first:
            H.vacuity_check(ctx, eng, core.lift(cl[0]) == 12345)
            first = False
        diffs = [d for d in (PR.terms_equal(a, b) for a, b in zip(cl, rl)) if d is not None]
        if len(cl) != len(rl):
            diffs.append(z3.BoolVal(True))
        sample = {'model': key, 'op': op, 'shape': list(shape), 'code_term': str(core.lift(cl[0]))[:300]}
        if not diffs:
            ctx.ob(f'{op} == closed form (syntactic identity)', 'syntactic', sample=sample)
        else:
            neg = z3.Or(*diffs)
            r, m = eng.check(neg, timeout=60000)
            if r == 'sat':
                cands = [{'inputs': inp, 'model': key, 'op': op, 'shape': list(shape), 'alias': spec.get('alias') or False}
                         for inp in H.witness_models(eng, neg, names, [z3.Real('beta') == z3.RealVal('25/6')])]
                H.mark_last(cands)
                ctx.ob(f'{op} == closed form', 'sat' if cands else 'unknown', cands, sample=sample)
            else:
                ctx.ob(f'{op} == closed form', r, sample=sample)
        ctx.add_engine(eng)
    ctx.add_stats({k: v for k, v in stats.items() if k != 'paths'})


def mp_closed_form(op, prior, beta):
    """independent high-precision evaluation of the documented closed form"""
    import mpmath as mp
    from statistics import NormalDist
    from ref import wenglin as R
    mp.mp.dps = 50

    class MP:
        sqrt = staticmethod(mp.sqrt)
        exp = staticmethod(mp.exp)
        max = staticmethod(max)

        @staticmethod
        def cdf(x):
            return mp.erfc(-x / mp.sqrt(2)) / 2

        @staticmethod
        def pdf(x):
            return mp.npdf(x)
    pr = [[(mp.mpf(a), mp.mpf(b)) for a, b in t] for t in prior]

    def inv(p):
        # the margin constant is the library's float value (documented formula, float evaluation)
        return mp.mpf(NormalDist().inv_cdf(p))
    return _ref(op, MP, pr, mp.mpf(beta), inv)


def replay(cand):
    key, op, shape = cand['model'], cand['op'], tuple(cand['shape'])
    inp = cand['inputs']
    m, teams = PR.float_teams(key, shape, inp)
    if cand.get('alias'):
        teams = _teams(m, shape, H.float_maker(inp), cand.get('alias'))
    prior = [[(p.mu, p.sigma) for p in t] for t in teams]
    code = PR.call(m, op, teams)
    if op == 'predict_rank':
        code = [x[1] for x in code]
    ref = mp_closed_form(op, prior, inp['beta'])
    cl = code if isinstance(code, list) else [code]
    rl = ref if isinstance(ref, list) else [ref]
    worst = max([abs(float(a) - float(b)) for a, b in zip(cl, rl)] + ([1.0] if len(cl) != len(rl) else []))
    return {'violated': bool(worst > 1e-9), 'key': f'{key}:{op}:{H.shape_str(shape)}' + (f':{cand.get("alias") if cand.get("alias") != True else "alias"}' if cand.get('alias') else ''),
            'detail': f'C12 {H.MODEL_NAMES[key]}.{op} shape={shape}{" (last team is a same-id snapshot of the first)" if cand.get("alias") == "snapshot" else " (first team list re-entered as last team)" if cand.get("alias") else ""} inputs={inp}: returns {cl}, closed form {[float(x) for x in rl]} (max abs diff {worst:.3g})'}
