"""C14, thread-interleaving clause: two calls through one shared model, the schedule is the symbolic variable.

Every access the real code makes to state that two threads share -- attributes of the model instance, mutable
containers held by the openskill classes and modules (class attributes, module globals, mutable default arguments),
lru_cache-wrapped callables -- is recorded while each call runs alone ("solo trace": a sequence of read / write events
with location and value).  The interleaving of the two traces is then a vector of integer positions; z3 is asked for
a total order, consistent with both program orders, in which some read observes the value of a *write of the other
thread* that differs from what it observed alone.  unsat: every interleaving (any number of context switches, at the
granularity of shared accesses) gives each thread the values it saw alone, hence the results of the serial runs.
sat: the order is forced on two real threads (each recorded access blocks until it is its turn) and the results are
compared with the serial ones; only a reproduced difference is reported.
"""
import itertools
import sys
import threading

from harness import common as H

MODPREFIX = 'openskill'


# ---------------------------------------------------------------------------
# recording
# ---------------------------------------------------------------------------
class Rec:
    """event log + (in replays) the gate that forces a schedule"""

    def __init__(self):
        self.events = {}          # label -> [(kind, container, key, value)]
        self.local = threading.local()
        self.order = None         # list of labels (forced schedule) or None
        self.i = 0
        self.cv = threading.Condition()
        self.done = set()
        self.diverged = False

    def label(self):
        return getattr(self.local, 'label', None)

    def hit(self, kind, cont, key, val):
        lab = self.label()
        if lab is None:
            return
        if self.order is not None:
            self.gate(lab)
        try:
            v = repr(val)[:120]
        except Exception:  # noqa: BLE001
            v = '<unrepr>'
        self.events.setdefault(lab, []).append((kind, cont, repr(key)[:80], v))

    def gate(self, lab):
        with self.cv:
            waited = 0.0
            while self.i < len(self.order) and self.order[self.i] != lab:
                other_done = all(x in self.done for x in set(self.order) if x != lab)
                if other_done or waited > 2.0:
                    self.diverged = True
                    break
                self.cv.wait(0.05)
                waited += 0.05
            self.i += 1
            self.cv.notify_all()

    def finish(self, lab):
        with self.cv:
            self.done.add(lab)
            self.cv.notify_all()


REC = None
MISSING = '<missing>'


def _mk_containers():
    rec = lambda: REC  # noqa: E731

    class RDict(dict):
        _n = '?'

        def __getitem__(self, k):
            try:
                v = dict.__getitem__(self, k)
            except KeyError:
                rec().hit('r', self._n, k, MISSING)
                raise
            rec().hit('r', self._n, k, v)
            return v

        def __setitem__(self, k, v):
            rec().hit('w', self._n, k, v)
            dict.__setitem__(self, k, v)

        def __delitem__(self, k):
            rec().hit('w', self._n, k, MISSING)
            dict.__delitem__(self, k)

        def __contains__(self, k):
            r = dict.__contains__(self, k)
            rec().hit('r', self._n, k, dict.get(self, k, MISSING))
            return r

        def get(self, k, d=None):
            rec().hit('r', self._n, k, dict.get(self, k, MISSING))
            return dict.get(self, k, d)

        def setdefault(self, k, d=None):
            if dict.__contains__(self, k):
                rec().hit('r', self._n, k, dict.__getitem__(self, k))
            else:
                rec().hit('r', self._n, k, MISSING)
                rec().hit('w', self._n, k, d)
            return dict.setdefault(self, k, d)

        def pop(self, k, *d):
            rec().hit('r', self._n, k, dict.get(self, k, MISSING))
            rec().hit('w', self._n, k, MISSING)
            return dict.pop(self, k, *d)

        def _whole_r(self):
            rec().hit('r', self._n, '*', sorted(map(repr, dict.items(self))))

        def _whole_w(self):
            rec().hit('w', self._n, '*', sorted(map(repr, dict.items(self))))

        def __iter__(self):
            self._whole_r()
            return dict.__iter__(self)

        def __len__(self):
            self._whole_r()
            return dict.__len__(self)

        def keys(self):
            self._whole_r()
            return dict.keys(self)

        def values(self):
            self._whole_r()
            return dict.values(self)

        def items(self):
            self._whole_r()
            return dict.items(self)

        def update(self, *a, **k):
            dict.update(self, *a, **k)
            self._whole_w()

        def clear(self):
            dict.clear(self)
            self._whole_w()

        def popitem(self):
            r = dict.popitem(self)
            self._whole_w()
            return r

    def _whole(base, readers, writers):
        ns = {'_n': '?'}

        def mk_r(name):
            def f(self, *a, **k):
                rec().hit('r', self._n, '*', base.__repr__(self))
                return getattr(base, name)(self, *a, **k)
            return f

        def mk_w(name):
            def f(self, *a, **k):
                # a mutation both depends on the content found (read) and leaves new content (write)
                rec().hit('r', self._n, '*', base.__repr__(self))
                r = getattr(base, name)(self, *a, **k)
                rec().hit('w', self._n, '*', base.__repr__(self))
                return r
            return f
        for nm in readers:
            if hasattr(base, nm):
                ns[nm] = mk_r(nm)
        for nm in writers:
            if hasattr(base, nm):
                ns[nm] = mk_w(nm)
        return type('R' + base.__name__.capitalize(), (base,), ns)

    RList = _whole(list, ['__getitem__', '__iter__', '__len__', '__contains__', 'index', 'count', 'copy', '__eq__', '__reversed__'],
                   ['append', 'extend', 'insert', 'pop', 'remove', 'clear', 'sort', 'reverse', '__setitem__', '__delitem__', '__iadd__', '__imul__'])
    RSet = _whole(set, ['__iter__', '__len__', '__contains__', 'copy', 'issubset', 'issuperset', 'isdisjoint', '__eq__'],
                  ['add', 'discard', 'remove', 'pop', 'clear', 'update', 'difference_update', 'intersection_update',
                   'symmetric_difference_update', '__ior__', '__iand__', '__isub__', '__ixor__'])
    return RDict, RList, RSet


def fresh_import():
    for name in [n for n in sys.modules if n == MODPREFIX or n.startswith(MODPREFIX + '.')]:
        del sys.modules[name]
    import importlib
    importlib.import_module('openskill.models')
    return [m for n, m in sys.modules.items() if n == MODPREFIX or n.startswith(MODPREFIX + '.')]


def instrument(mods):
    """replace every shared mutable container reachable from the openskill modules and classes by a recording one;
    returns the list of instrumented locations and a snapshot function for rebinding detection"""
    import functools
    import inspect
    RDict, RList, RSet = _mk_containers()
    wrapmap = {dict: RDict, list: RList, set: RSet}
    located = []

    def wrap(val, name):
        t = wrapmap.get(type(val))
        if t is None:
            return None
        w = t(val)
        w._n = name
        located.append(name)
        return w

    def wrap_lru(fn, name):
        def caller(*a, **k):
            key = (a, tuple(sorted(k.items())))
            hits0 = fn.cache_info().hits
            r = fn(*a, **k)
            if fn.cache_info().hits > hits0:
                REC.hit('r', name, key, r)
            else:
                REC.hit('r', name, key, MISSING)
                REC.hit('w', name, key, r)
            return r
        functools.update_wrapper(caller, fn)
        located.append(name)
        return caller

    def do_function(f, name):
        if f.__defaults__:
            nd = tuple(wrap(d, f'{name}.__defaults__[{i}]') or d for i, d in enumerate(f.__defaults__))
            if any(a is not b for a, b in zip(nd, f.__defaults__)):
                f.__defaults__ = nd
        if f.__kwdefaults__:
            for k, d in list(f.__kwdefaults__.items()):
                w = wrap(d, f'{name}.__kwdefaults__[{k}]')
                if w is not None:
                    f.__kwdefaults__[k] = w
        if f.__closure__:
            for i, c in enumerate(f.__closure__):
                try:
                    w = wrap(c.cell_contents, f'{name}.<cell {f.__code__.co_freevars[i]}>')
                except ValueError:
                    continue
                if w is not None:
                    c.cell_contents = w

    classes = []
    for m in mods:
        for name, val in list(vars(m).items()):
            if name.startswith('__'):
                continue
            full = f'{m.__name__}.{name}'
            if inspect.isclass(val) and getattr(val, '__module__', '').startswith(MODPREFIX) and val not in classes:
                classes.append(val)
            elif inspect.isfunction(val) and val.__module__ == m.__name__:
                do_function(val, full)
            elif hasattr(val, 'cache_info') and hasattr(val, '__wrapped__'):
                setattr(m, name, wrap_lru(val, full))
            else:
                w = wrap(val, full)
                if w is not None:
                    setattr(m, name, w)
    for c in classes:
        for name, val in list(vars(c).items()):
            if name.startswith('__') and name not in ('__defaults__',):
                if not inspect.isfunction(val):
                    continue
            full = f'{c.__module__}.{c.__qualname__}.{name}'
            raw = val.__func__ if isinstance(val, (staticmethod, classmethod)) else val
            if inspect.isfunction(raw):
                do_function(raw, full)
            elif hasattr(raw, 'cache_info') and hasattr(raw, '__wrapped__'):
                setattr(c, name, staticmethod(wrap_lru(raw, full)) if isinstance(val, staticmethod) else wrap_lru(raw, full))
            else:
                w = wrap(val, full)
                if w is not None:
                    setattr(c, name, w)

    def snapshot():
        """identity of every non-callable binding in the modules and classes (rebinding is invisible to the containers)"""
        out = {}
        for m in mods:
            for name, val in vars(m).items():
                if not callable(val) and not inspect.ismodule(val):
                    out[f'{m.__name__}.{name}'] = (id(val), repr(val)[:80])
        for c in classes:
            for name, val in vars(c).items():
                if not callable(val) and not isinstance(val, (staticmethod, classmethod, property)):
                    out[f'{c.__module__}.{c.__qualname__}.{name}'] = (id(val), repr(val)[:80])
        return out
    return located, snapshot


def recording_model(Model, **kw):
    """an instance of a subclass whose data-attribute reads and writes are recorded"""
    class Shared(Model):
        def __getattribute__(self, name):
            v = object.__getattribute__(self, name)
            if not name.startswith('__') and not callable(v):
                REC.hit('r', 'model', name, v)
            return v

        def __setattr__(self, name, v):
            REC.hit('w', 'model', name, v)
            object.__setattr__(self, name, v)

        def __delattr__(self, name):
            REC.hit('w', 'model', name, MISSING)
            object.__delattr__(self, name)
    Shared.__name__ = Model.__name__
    Shared.__qualname__ = Model.__qualname__
    obj = Shared(**kw)
    # containers held by the instance itself (a per-model memo filled in place is invisible to __setattr__)
    RDict, RList, RSet = _mk_containers()
    for k, v in list(obj.__dict__.items()):
        t = {dict: RDict, list: RList, set: RSet}.get(type(v))
        if t is not None:
            w = t(v)
            w._n = f'model.{k}'
            object.__setattr__(obj, k, w)
    return obj


# ---------------------------------------------------------------------------
# the two calls
# ---------------------------------------------------------------------------
CALLS = {
    'rate-opts': ('rate', (2, 1, 2), dict(ranks=[2, 1, 2], tau=0.37, limit_sigma=True)),
    'rate': ('rate', (1, 2), dict(ranks=[1, 0])),
    'rate-scores': ('rate', (2, 2), dict(scores=[3.0, 7])),
    'rate-tau0': ('rate', (1, 1, 1), dict(tau=0, limit_sigma=False)),
    'predict_win': ('predict_win', (2, 1, 2), {}),
    'predict_draw': ('predict_draw', (2, 1, 2), {}),
    'predict_rank': ('predict_rank', (1, 2), {}),
}
PAIRS = [('rate-opts', 'rate'), ('rate-opts', 'predict_draw'), ('rate-tau0', 'rate-scores'), ('predict_rank', 'predict_win'),
         ('predict_draw', 'predict_rank'), ('rate-opts', 'rate-tau0')]


def _game(m, shape, seed):
    return [[m.rating(25.0 + 1.7 * i - 0.9 * j + seed, 8.0 - 1.1 * i - 0.4 * j - 0.3 * seed) for j in range(n)] for i, n in enumerate(shape)]


def _do(m, call, seed):
    op, shape, kw = CALLS[call]
    g = _game(m, shape, seed)
    r = getattr(m, op)(g, **kw)
    if op == 'rate':
        return [[(p.mu, p.sigma) for p in t] for t in r]
    return [list(x) if isinstance(x, tuple) else x for x in r] if isinstance(r, list) else r


def _setup(key, twin=False):
    """fresh import, instrumented; returns the shared model"""
    global REC
    REC = Rec()
    mods = fresh_import()
    located, snapshot = instrument(mods)
    Model = H.model_class(key)
    if twin:
        Model = _racy(Model)
    m = recording_model(Model, limit_sigma=False)
    return m, located, snapshot


def _racy(Model):
    """reachability twin: a harness-level subclass with a deliberately racy class-level scratch list"""
    RDict, RList, RSet = _mk_containers()
    scratch = RList()
    scratch._n = 'twin._scratch'

    class Racy(Model):
        _scratch = scratch

        def predict_win(self, teams):
            self._scratch.clear()
            self._scratch.extend(len(t) for t in teams)
            r = super().predict_win(teams)
            k = sum(self._scratch) / sum(len(t) for t in teams)
            return [x * k for x in r]

        def predict_rank(self, teams):
            self._scratch.clear()
            self._scratch.extend(len(t) for t in teams)
            r = super().predict_rank(teams)
            k = sum(self._scratch) / sum(len(t) for t in teams)
            return [(a, b * k) for a, b in r]
    Racy.__name__ = Model.__name__
    return Racy


def solo_traces(key, ca, cb, twin=False):
    """run A alone and B alone (each on a fresh instrumented import): events, results, rebound names"""
    out = {}
    for lab, call, seed in (('A', ca, 0), ('B', cb, 1)):
        m, located, snapshot = _setup(key, twin)
        s0 = snapshot()
        REC.local.label = lab
        try:
            res = _do(m, call, seed)
        finally:
            REC.local.label = None
        s1 = snapshot()
        rebound = sorted(k for k in set(s0) | set(s1) if s0.get(k, (None,))[0] != s1.get(k, (None,))[0])
        out[lab] = (REC.events.get(lab, []), res, rebound, located)
    return out


def serial(key, ca, cb, order, twin=False):
    m, _, _ = _setup(key, twin)
    res = {}
    for lab in order:
        res[lab] = _do(m, ca if lab == 'A' else cb, 0 if lab == 'A' else 1)
    return res


def scheduled(key, ca, cb, order, twin=False):
    """two real threads, accesses forced into `order` (list of labels)"""
    m, _, _ = _setup(key, twin)
    REC.order = list(order)
    res, errs = {}, {}

    def body(lab, call, seed):
        REC.local.label = lab
        try:
            res[lab] = _do(m, call, seed)
        except Exception as e:  # noqa: BLE001
            errs[lab] = repr(e)
        finally:
            REC.local.label = None
            REC.finish(lab)
    ta = threading.Thread(target=body, args=('A', ca, 0))
    tb = threading.Thread(target=body, args=('B', cb, 1))
    ta.start()
    tb.start()
    ta.join(60)
    tb.join(60)
    return res, errs, REC.diverged


# ---------------------------------------------------------------------------
# encoding
# ---------------------------------------------------------------------------
def _match(e, f):
    return e[1] == f[1] and (e[2] == f[2] or e[2] == "'*'" or f[2] == "'*'")


def find_schedule(evA, evB, timeout=60000, limit=16):
    """z3: is there an interleaving in which some read sees a foreign write with a value other than the one it saw alone?
    returns (verdict, list of orders (one per conflicting pair that can be realised, up to `limit`), number of conflicting pairs).
    Not every such observation changes a result (a clear() also "reads" what it discards), so the orders are alternative
    witnesses of one sat verdict: each is forced on real threads, and only a reproduced difference is reported."""
    import z3
    pa = [z3.Int(f'a{i}') for i in range(len(evA))]
    pb = [z3.Int(f'b{i}') for i in range(len(evB))]
    base = []
    n = len(pa) + len(pb)
    allp = pa + pb
    for p in allp:
        base += [p >= 0, p < n]
    if allp:
        base.append(z3.Distinct(*allp))
    for ps in (pa, pb):
        for x, y in zip(ps, ps[1:]):
            base.append(x < y)
    disj = []
    for (evR, pR, evW, pW) in ((evA, pa, evB, pb), (evB, pb, evA, pa)):
        writes_other = [(j, f) for j, f in enumerate(evW) if f[0] == 'w']
        for i, e in enumerate(evR):
            if e[0] != 'r':
                continue
            for j, f in writes_other:
                if not _match(e, f):
                    continue
                exact = e[2] == f[2] and e[2] != "'*'"
                if exact and e[3] == f[3]:
                    continue            # the foreign write stores the very value the read saw alone: harmless
                # the read sees this foreign write: it is the last matching write before the read
                conds = [pW[j] < pR[i]]
                for k, g in enumerate(evR[:i]):
                    if g[0] == 'w' and _match(e, g):
                        conds.append(pR[k] < pW[j])
                for k, g in writes_other:
                    if k > j and _match(e, g):
                        conds.append(pR[i] < pW[k])
                disj.append(z3.And(*conds))
    npairs = len(disj)
    s = z3.Solver()
    s.set('timeout', timeout)
    s.add(*base)
    s.add(z3.Or(*disj) if disj else z3.BoolVal(False))
    r = str(s.check())
    if r != 'sat':
        return r, [], npairs
    orders = []
    # one witness per realisable pair, later pairs first (reads late in a call are the ones whose value reaches the result)
    for d in reversed(disj):
        if len(orders) >= limit:
            break
        s2 = z3.Solver()
        s2.set('timeout', 10000)
        s2.add(*base)
        s2.add(d)
        if str(s2.check()) != 'sat':
            continue
        mdl = s2.model()
        pos = [(mdl.eval(p, model_completion=True).as_long(), 'A') for p in pa] + [(mdl.eval(p, model_completion=True).as_long(), 'B') for p in pb]
        pos.sort()
        o = [lab for _, lab in pos]
        if o not in orders:
            orders.append(o)
    return 'sat', orders, npairs


def coarse_orders(na, nb):
    """a few fixed interleavings, used when a shared binding is re-bound (invisible to the containers)"""
    outs = []
    for k in (1, na // 3, na // 2, max(na - 2, 1)):
        outs.append(['A'] * k + ['B'] * nb + ['A'] * (na - k))
    for k in (1, nb // 2):
        outs.append(['B'] * k + ['A'] * na + ['B'] * (nb - k))
    outs.append([x for pair in itertools.zip_longest(['A'] * na, ['B'] * nb) for x in pair if x])
    return outs


# ---------------------------------------------------------------------------
# job / replay
# ---------------------------------------------------------------------------
def jobs(tier):
    out = []
    for key in H.ALL:
        out.append({'name': f'{key}-sched', 'mode': 'sched', 'model': key, 'budget': 300, 'cost': 20})
    return out


def _same(x, y):
    return list(H._flatten(x)) == list(H._flatten(y))


def run_sched(spec, ctx):
    import time
    key = spec['model']
    # reachability twin first: the machinery must find and reproduce a deliberately racy subclass
    tw = solo_traces(key, 'predict_win', 'predict_rank', twin=True)
    ctx.vacuity['checked'] += 1
    t0 = time.time()
    r, orders, npairs = find_schedule(tw['A'][0], tw['B'][0])
    ctx.queries += 1 + len(orders)
    ctx.solver_s += time.time() - t0
    if r == 'sat':
        ser = serial(key, 'predict_win', 'predict_rank', 'AB', twin=True)
        for order in orders:
            res, errs, _ = scheduled(key, 'predict_win', 'predict_rank', order, twin=True)
            if errs or not (_same(res.get('A'), ser['A']) and _same(res.get('B'), ser['B'])):
                ctx.vacuity['reach_sat'] += 1
                ctx.vacuity['false_ob_sat'] += 1
                break
    if ctx.vacuity['reach_sat'] == 0:
        ctx.error(f'{key}: the racy twin was not detected/reproduced (verdict {r}, {npairs} conflicting pairs)')
    for ca, cb in PAIRS:
        tr = solo_traces(key, ca, cb)
        evA, resA, rebA, located = tr['A']
        evB, resB, rebB, _ = tr['B']
        sAB = serial(key, ca, cb, 'AB')
        sBA = serial(key, ca, cb, 'BA')
        base_ok = _same(sAB['A'], sBA['A']) and _same(sAB['B'], sBA['B']) and _same(sAB['A'], resA) and _same(sAB['B'], resB)
        cand_base = {'mode': 'sched', 'model': key, 'a': ca, 'b': cb}
        sample = {'model': key, 'thread_A': ca, 'thread_B': cb, 'shared_accesses_A': len(evA), 'shared_accesses_B': len(evB),
                  'writes_A': sum(1 for e in evA if e[0] == 'w'), 'writes_B': sum(1 for e in evB if e[0] == 'w'),
                  'instrumented_containers': located[:12]}
        ctx.paths += 2
        ctx.ob(f'{ca} | {cb}: serial results do not depend on the order (A;B = B;A = alone)', 'unsat' if base_ok else 'sat',
               None if base_ok else dict(cand_base, order=['A'] * len(evA) + ['B'] * len(evB), what='serial'), sample=sample)
        t0 = time.time()
        r, orders, npairs = find_schedule(evA, evB)
        ctx.queries += 1 + len(orders)
        ctx.solver_s += time.time() - t0
        sample = dict(sample, conflicting_read_write_pairs=npairs, verdict=r)
        desc = (f'{ca} | {cb}: no interleaving of the {len(evA)}+{len(evB)} shared accesses lets a read observe a foreign write '
                f'with another value than alone ({npairs} conflicting pairs)')
        if r == 'sat':
            cands = [dict(cand_base, order=o, what='schedule') for o in orders]
            H.mark_last(cands)
            ctx.ob(desc, 'sat', cands, sample=sample)
        else:
            ctx.ob(desc, r, sample=sample)
        reb = sorted(set(rebA) | set(rebB))
        wr = sorted({f'{e[1]}[{e[2]}]' for e in evA + evB if e[0] == 'w'})
        # induction premise for histories of any length: a call leaves every shared location as it found it, so the n-th call
        # starts from the state of the first.  A benign memo breaks the premise without breaking the property: inconclusive, not a violation.
        ctx.ob(f'{ca} | {cb}: no shared location is written or re-bound by a call (premise: histories of any length behave like the pairs explored)'
               + ('' if not (wr or reb) else f' - written: {wr[:4]} re-bound: {reb[:4]}'), 'unsat' if not (wr or reb) else 'unknown', sample=sample)
        if reb:
            cands = [dict(cand_base, order=o, what='rebound') for o in coarse_orders(len(evA), len(evB))]
            H.mark_last(cands)
            ctx.ob(f'{ca} | {cb}: shared bindings re-bound during a call ({reb[:4]}): not schedulable at access granularity, fixed interleavings tried',
                   'sat', cands, sample=sample)


def replay_sched(cand):
    key, ca, cb, order = cand['model'], cand['a'], cand['b'], cand['order']
    ser = serial(key, ca, cb, 'AB')
    ser2 = serial(key, ca, cb, 'BA')
    res, errs, diverged = scheduled(key, ca, cb, order)
    bad = bool(errs) or not (_same(res.get('A'), ser['A']) and _same(res.get('B'), ser['B'])) or \
        not (_same(ser['A'], ser2['A']) and _same(ser['B'], ser2['B']))
    return {'violated': bool(bad), 'key': f'{key}:sched:{ca}|{cb}',
            'detail': f'C14 {H.MODEL_NAMES[key]}: threads A={ca} and B={cb} on one shared model, forced interleaving of {len(order)} shared accesses '
                      f'(first switch after {order.index("B") if "B" in order and order[0] == "A" else order.index("A") if "A" in order else 0}): '
                      f'concurrent A={res.get("A")} B={res.get("B")} errors={errs} vs serial A={ser["A"]} B={ser["B"]} (B;A: A={ser2["A"]} B={ser2["B"]})'}
