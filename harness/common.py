"""helpers shared by the per-property harnesses"""
import itertools
import math
import os
import sys

REPO = os.environ.get('VERIF_REPO', '/repo')
if REPO not in sys.path:
    sys.path.insert(0, REPO)

MODEL_NAMES = {
    'pl': 'PlackettLuce',
    'btf': 'BradleyTerryFull',
    'btp': 'BradleyTerryPart',
    'tmf': 'ThurstoneMostellerFull',
    'tmp': 'ThurstoneMostellerPart',
}
ALL = ['pl', 'btf', 'btp', 'tmf', 'tmp']
BT_PL = ['pl', 'btf', 'btp']
TM = ['tmf', 'tmp']
MODULE_OF = {
    'pl': 'plackett_luce', 'btf': 'bradley_terry_full', 'btp': 'bradley_terry_part',
    'tmf': 'thurstone_mosteller_full', 'tmp': 'thurstone_mosteller_part',
}


def model_class(key):
    import importlib
    m = importlib.import_module('openskill.models.weng_lin.' + MODULE_OF[key])
    return getattr(m, MODEL_NAMES[key])


def rating_class(key):
    import importlib
    m = importlib.import_module('openskill.models.weng_lin.' + MODULE_OF[key])
    return getattr(m, MODEL_NAMES[key] + 'Rating')


def weak_orders(n):
    """all weak orders of n items as dense rank tuples (0 = best)"""
    seen = []
    for v in itertools.product(range(n), repeat=n):
        d = sorted(set(v))
        c = tuple(d.index(x) for x in v)
        if c not in seen:
            seen.append(c)
    return seen


def shape_str(shape):
    return ''.join(str(x) for x in shape)


def ranks_str(r):
    return ''.join(str(x) for x in r)


def pname(kind, i, j):
    return f"{kind}_{i}_{j}"


def sym_names(shape):
    names = ['beta', 'tau', 'kappa']
    for i, n in enumerate(shape):
        for j in range(n):
            names += [pname('mu', i, j), pname('sg', i, j)]
    return names


def domain(shape, sigma_zero_ok=False, tau_max_beta=10, extra_names=()):
    """the numeric domain of the properties, as z3 constraints over the input symbols"""
    import z3
    beta, tau, kappa = z3.Real('beta'), z3.Real('tau'), z3.Real('kappa')
    base = [beta > 0, tau >= 0, tau <= tau_max_beta * beta, kappa > 0, kappa * 100 <= 1]
    for i, n in enumerate(shape):
        for j in range(n):
            mu = z3.Real(pname('mu', i, j))
            sg = z3.Real(pname('sg', i, j))
            base += [mu >= -20 * beta, mu <= 20 * beta, sg <= 10 * beta]
            if sigma_zero_ok:
                base += [sg >= 0, z3.Or(sg * 10000 >= beta, z3.And(sg == 0, tau > 0))]
            else:
                base += [sg * 10000 >= beta]
    return base


def set_facts(shape, sigma_zero_ok=False):
    from sx import core
    core.INPUT_FACTS.clear()
    core.INPUT_FACTS.update({'beta': core.F(0.0, True), 'tau': core.F(0.0, False),
                             'kappa': core.F(0.0, True, 0.01, False)})
    for i, n in enumerate(shape):
        for j in range(n):
            core.INPUT_FACTS[pname('sg', i, j)] = core.F(0.0, not sigma_zero_ok)


def draw_fn(shape, tau_zero=False):
    def draw(rng):
        b = rng.choice([25 / 6, 1.0, 0.01, 300.0])
        e = {'beta': b, 'tau': 0.0 if tau_zero else rng.uniform(0, b), 'kappa': rng.choice([1e-4, 1e-2, 1e-6])}
        for i, n in enumerate(shape):
            for j in range(n):
                e[pname('mu', i, j)] = rng.uniform(-20 * b, 20 * b) if rng.random() < 0.5 else rng.uniform(-2 * b, 2 * b)
                e[pname('sg', i, j)] = b * rng.choice([1e-3, 0.1, 1, 2, 9])
        return e
    return draw


def sym_maker():
    """name -> Sym(z3.Real(name))"""
    import z3
    from sx.core import Sym

    def mk(name):
        return Sym(z3.Real(name))
    return mk


def build_game(Model, shape, mk, **cfg):
    """model + teams from a value maker (symbolic or concrete)"""
    kw = dict(beta=mk('beta'), tau=mk('tau'), kappa=mk('kappa'))
    kw.update(cfg)
    m = Model(**kw)
    teams = [[m.rating(mk(pname('mu', i, j)), mk(pname('sg', i, j)), name=f"p{i}_{j}") for j in range(n)]
             for i, n in enumerate(shape)]
    return m, teams


def float_maker(inputs):
    def mk(name):
        return float(inputs[name])
    return mk


def nice_pins(shape):
    """soft preferences used to obtain realistic, robust counterexamples"""
    import z3
    pins = [z3.Real('beta') == z3.RealVal('25/6'), z3.Real('kappa') == z3.RealVal('1/10000'),
            z3.Real('tau') == z3.RealVal('1/12')]
    return pins


def corner_inputs(names, count=220, seed=0):
    """Concrete candidate inputs biased to corners of the domain (sigma = 0 or tiny, equal mus,
    large mismatches, tau = 0 ...).  Used ONLY to find a replayable witness after the solver has
    answered `sat` on the uninterpreted abstraction (whose own model may assign impossible values
    to exp/Phi); never to decide that a property holds."""
    import random
    rng = random.Random(seed)
    out = []
    # deterministic extreme corners first: one team at +20 beta, the rest at -20 beta (and the reverse, and
    # alternating), with tiny / zero / mid sigmas - the largest mismatches the domain allows
    for b in (25 / 6, 0.01):
        for pattern in ('first-high', 'first-low', 'alternate', 'last-high'):
            for sg in (1e-4, 0.5, 0.0):
                e = {}
                for n in names:
                    if n.startswith('mu'):
                        try:
                            i = int(n.split('_')[1])
                        except (IndexError, ValueError):
                            i = 0
                        nteams = 1 + max([int(x.split('_')[1]) for x in names if x.startswith('mu_') and x.split('_')[1].isdigit()] or [0])
                        hi = {'first-high': i == 0, 'first-low': i != 0, 'alternate': i % 2 == 0, 'last-high': i == nteams - 1}[pattern]
                        e[n] = 20 * b if hi else -20 * b
                    elif n.startswith('sg'):
                        e[n] = sg * b
                    elif n == 'beta':
                        e[n] = b
                    elif n == 'kappa':
                        e[n] = 1e-4
                    elif n in ('tau', 't', 'T0', 't1'):
                        e[n] = b / 50 if sg == 0.0 else 0.0
                    elif n == 'k':
                        e[n] = 2.0
                    else:
                        e[n] = 0.5 * b
                out.append(e)
    for k in range(count):
        b = rng.choice([25 / 6, 25 / 6, 1.0, 0.01, 300.0, 25 / 6000, 25 / 6000])  # incl. the default system rescaled by 1e-3 (absolute floors such as kappa bite there)
        eq_mu = rng.random() < 0.4
        sg_mode = rng.choice(['zero', 'tiny', 'mid', 'big', 'mix', 'mix'])
        mu0 = rng.uniform(-5 * b, 5 * b)
        e = {}
        for n in names:
            if n == 'beta':
                e[n] = b
            elif n == 'kappa':
                e[n] = rng.choice([1e-4, 1e-4, 1e-2, 1e-6])
            elif n in ('tau', 't', 'T0', 't1'):
                e[n] = rng.choice([0.0, b / 50, b / 50, b, 5 * b])
            elif n.startswith('mu'):
                e[n] = mu0 if eq_mu else rng.choice([mu0, rng.uniform(-3 * b, 3 * b), rng.uniform(-20 * b, 20 * b)])
            elif n.startswith('sg'):
                m = sg_mode if sg_mode != 'mix' else rng.choice(['tiny', 'mid', 'big'])
                e[n] = {'zero': 0.0, 'tiny': 1e-4 * b, 'mid': b * rng.uniform(0.3, 2.5), 'big': 10 * b}[m]
            elif n == 'd':
                e[n] = b * rng.choice([1e-3, 0.5, 3.0, 15.0])
            elif n == 'e':
                e[n] = b * rng.choice([-8.0, -1.0, -0.1, 0.1, 1.0, 8.0])
            elif n == 'c':
                e[n] = rng.uniform(-5 * b, 5 * b)
            elif n == 'k':
                e[n] = rng.choice([1e-3, 0.5, 2.0, 1e3])
            elif n == 's':
                e[n] = rng.uniform(-5 * b, 5 * b)
            else:
                e[n] = rng.uniform(0, 1)
        out.append(e)
    return out


def witness_models(eng, neg, names, pins=(), timeout=20000, lemma=False, extra=(), corners=True, alive_first=True):
    """candidate input assignments for a `sat` obligation: first with the
    configuration pinned to the library defaults (robust, realistic), then free;
    the last candidate also carries a batch of corner points (see corner_inputs)."""
    from sx.core import model_inputs
    out = []
    tried = []
    if pins:
        tried.append(list(pins))
    tried.append([])
    for p in tried:
        r, m = eng.check(neg, *p, *extra, timeout=timeout)
        if r == 'sat':
            try:
                out.append(model_inputs(m, names))
            except Exception:  # noqa: BLE001
                pass
    if out and corners:
        # shadow points that satisfy the path are natural candidates too
        alt = [{n: eng.env[k][n] for n in names if n in eng.env[k]} for k, al in enumerate(eng.alive) if al]
        alt = [a for a in alt if len(a) == len(names)]
        out[-1] = dict(out[-1])
        out[-1]['__alt__'] = alt + corner_inputs(names)
    return out


def rel_close(a, b, tol=1e-9, abs_tol=0.0):
    return abs(a - b) <= max(tol * max(abs(a), abs(b)), abs_tol)


# --------------------------------------------------------------------------
# generic exploration of Model.rate on a symbolic game
# --------------------------------------------------------------------------
def iter_rate(key, shape, ranks=None, scores=None, cfg=None, call=None, opts=None, ctx=None,
              sigma_zero_ok=False, validate=True, extra_base=(), draw=None):
    """Generator over every path of the real `rate` for one model/shape/outcome:
    yields (('ok', [[(muSym, sigmaSym)]]) | ('exc', e), engine)."""
    from sx import core
    core.install()
    Model = model_class(key)
    cfg = dict(cfg or {})
    call = dict(call or {})
    set_facts(shape, sigma_zero_ok)
    base = domain(shape, sigma_zero_ok) + list(extra_base)
    mk = sym_maker()
    o = dict(opts or {})
    if ctx is not None:
        o.setdefault('deadline', ctx.deadline)

    def run_with(mkf):
        m, teams = build_game(Model, shape, mkf, **cfg)
        # a call argument written 'sym:<name>' is resolved through the value maker (symbolic or concrete)
        kw = {k: (mkf(v[4:]) if isinstance(v, str) and v.startswith('sym:') else v) for k, v in call.items()}
        if ranks is not None:
            kw['ranks'] = list(ranks)
        if scores is not None:
            kw['scores'] = list(scores)
        out = m.rate(teams, **kw)
        return [[(p.mu, p.sigma) for p in t] for t in out]

    stats = {}
    try:
        for out, eng in core.iter_paths(lambda: run_with(mk), base, draw or draw_fn(shape), opts=o, stats=stats):
            if validate and ctx is not None and out[0] == 'ok':
                validate_shadows(ctx, eng, out[1], lambda env: run_with(float_maker(env)))
            yield out, eng
            if ctx is not None:
                ctx.add_engine(eng)
    finally:
        if ctx is not None:
            ctx.add_stats(stats)


def _flatten(x):
    if isinstance(x, (list, tuple)):
        for y in x:
            yield from _flatten(y)
    else:
        yield x


def validate_shadows(ctx, eng, out_sym, run_concrete):
    """translator validation: on one shadow point that satisfies the path, the proxies' shadow
    values must equal a plain float run of the real code"""
    from sx import core
    for k, alive in enumerate(eng.alive):
        if not alive:
            continue
        conc = run_concrete(eng.env[k])
        for a, b in zip(_flatten(out_sym), _flatten(conc)):
            sh = a.s[k] if isinstance(a, core.Sym) else a
            if isinstance(b, (int, float)) and not isinstance(b, bool):
                if not (sh == sh) or not rel_close(float(sh), float(b), 1e-7, 1e-9):
                    ctx.error(f"translator validation: shadow {sh!r} != concrete {b!r} at {eng.env[k]}")
                else:
                    ctx.validated += 1
        break  # one alive shadow per path is enough


def explore_rate(*a, **kw):
    res = list(iter_rate(*a, **kw))
    return res, {}


def vacuity_check(ctx, eng, false_ob):
    """reachability twin and a deliberately false obligation (both must be sat)"""
    ctx.vacuity['checked'] += 1
    if any(eng.alive):
        ctx.vacuity['reach_sat'] += 1
    else:
        r, _ = eng.check(timeout=10000)
        if r == 'sat':
            ctx.vacuity['reach_sat'] += 1
        elif r == 'unknown':
            ctx.vacuity['reach_sat'] += 1
            ctx.notes.append('reachability twin: unknown (path kept by over-approximation)')
    r, _ = eng.check(false_ob, timeout=3000)
    if r == 'sat':
        ctx.vacuity['false_ob_sat'] += 1


def rate_float(key, shape, inputs, ranks=None, scores=None, cfg=None, call=None):
    """plain float run of the real code (used by replays; clean interpreter)"""
    Model = model_class(key)
    m, teams = build_game(Model, shape, float_maker(inputs), **(cfg or {}))
    kw = {k: (float(inputs[v[4:]]) if isinstance(v, str) and v.startswith('sym:') else v) for k, v in (call or {}).items()}
    if ranks is not None:
        kw['ranks'] = list(ranks)
    if scores is not None:
        kw['scores'] = list(scores)
    prior = [[(p.mu, p.sigma) for p in t] for t in teams]
    out = m.rate(teams, **kw)
    return prior, [[(p.mu, p.sigma) for p in t] for t in out], m


def mark_last(cands):
    """alternative witnesses of one obligation: only the failure of the last one counts as 'did not replay'"""
    for c in cands:
        c['last'] = False
    if cands:
        cands[-1]['last'] = True
    return cands
