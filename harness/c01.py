"""C01 -- rate() computes the published Weng-Lin posterior for each of the five models."""
import math

from harness import common as H

INFO = {
    'level': 'other',
    'explanation': (
        'Bounded symbolic execution of the real Model.rate and, in the same symbolic path, of an independent reference '
        '(ref/wenglin.py, written from Weng & Lin 2011 Algorithms 1-4 on team aggregates with the documented extensions). '
        'mu, sigma, beta, tau, kappa are symbolic over the whole domain; the gamma callback is once the default and once an '
        'uninterpreted function of its documented arguments (so a wrong argument is a sat). Per path and player z3 decides '
        'mu_code != mu_ref or sigma_code != sigma_ref unsatisfiable (often already a syntactic identity after sum-of-monomials '
        'normalisation, because both runs create the same primitive applications). sat models are replayed in floats against the '
        'float evaluation of the reference at 1e-9 relative.'),
    'bounds': {
        'quick': 'all five models; shapes (1,1),(2,1) x 3 orders, (1,1,1) x 13 orders [TM: (1,1) all orders, (2,1) strict orders, (1,1,1): partial pairing all orders with at most one tied pair, full pairing strict orders and three one-tie orders, (2,1,1)/(1,2,1) strict]; PL/BT with default gamma also 4, 5, 6 and 8 single-player teams, (3,2,1), (2,2,2), (4,4), (8,8), (3,1,4,1), (2,3,1,2,1) on selected outcomes incl. multi-way ties; '
                 'limit_sigma off with default gamma and on with uninterpreted gamma',
        'thorough': '+ (2,2), (1,2,1), (1,1,1,1) x 75 orders for PL/BT; TM (2,1) ties, TM (1,1,1) all 13 orders',
    },
    'outside': ['IEEE rounding (1e-9 figure only evaluated in replays)', '5-8 teams, 3-8 players per team',
                'TM full pairing with ties among 3+ teams',
                'accuracy of the asymptotic forms themselves (C17); the reference uses the same documented guards'],
    'stubs': None,
    'axioms': ['T0/T1 (DESIGN 2.2)'],
    'assumptions': ['real-number semantics (mode R)', 'reference model ref/wenglin.py is the published rule (validated in floats against the goldens at set-up)',
                    'Thurstone-Mosteller partial pairing c_iq = 2*sqrt(...) is the library\'s own definition (DESIGN 3)'],
}


def jobs(tier):
    out = []

    def add(key, shape, ranks, variant, budget, cost=None):
        out.append({'name': f'{key}-{H.shape_str(shape)}-{H.ranks_str(ranks)}-{variant}', 'model': key,
                    'shape': list(shape), 'ranks': list(ranks), 'variant': variant, 'budget': budget, 'cost': cost or budget})
    for key in H.ALL:
        tm = key in H.TM
        for variant in ('plain', 'lsuf'):
            for shape in [(1, 1), (2, 1)]:
                for W in H.weak_orders(2):
                    if tm and shape == (2, 1) and W[0] == W[1] and tier == 'quick':
                        continue
                    if tm and variant == 'lsuf' and W[0] == W[1] and tier == 'quick':
                        continue
                    add(key, shape, W, variant, 240 if tier == "quick" else 900, (100 if W[0] == W[1] else 30) if tm else 5)
            for W in H.weak_orders(3):
                if tm:
                    continue
                add(key, (1, 1, 1), W, variant, 240, 10)
            if tier == 'thorough' and not tm:
                for W in [(0, 1), (0, 0), (1, 0)]:
                    add(key, (2, 2), W, variant, 600, 60)
                for W in [(0, 1, 2), (1, 0, 1), (0, 0, 0), (2, 0, 1)]:
                    add(key, (1, 2, 1), W, variant, 900, 200)
        if tier == 'thorough' and not tm:
            for W in H.weak_orders(4):
                add(key, (1, 1, 1, 1), W, 'plain', 900, 100)
    # the same outcomes given as scores (negated ranks): same reference posterior
    for key in H.ALL:
        for shape, W in [((1, 1), (0, 0)), ((1, 1), (1, 0)), ((2, 1), (0, 1))] + ([] if key in H.TM else [((1, 1, 1), (0, 0, 1)), ((1, 1, 1), (1, 0, 1)), ((1, 1, 1), (2, 0, 1))]):
            add(key, shape, W, 'scores', 600, 20)
    # larger games for PL/BT, default gamma, limit_sigma off: one path each, decided as syntactic identity with the reference
    big = [((1, 1, 1, 1), (0, 1, 2, 3)), ((1, 1, 1, 1), (2, 0, 0, 1)), ((1, 1, 1, 1), (0, 0, 0, 0)),
           ((1,) * 5, (0, 1, 2, 3, 4)), ((1,) * 5, (3, 1, 1, 0, 1)), ((1,) * 5, (1, 1, 0, 0, 0)),
           ((1,) * 6, (5, 4, 3, 2, 1, 0)), ((1,) * 6, (0, 1, 1, 1, 1, 2)),
           ((3, 2, 1), (1, 0, 1)), ((3, 2, 1), (2, 1, 0)), ((2, 2, 2), (0, 0, 1)), ((4, 4), (1, 0)), ((4, 4), (0, 0)), ((8, 8), (0, 1)),
           ((3, 1, 4, 1), (0, 1, 1, 2)), ((2, 3, 1, 2, 1), (4, 3, 2, 1, 0))]
    for key in H.BT_PL:
        for shape, W in big:
            add(key, shape, W, 'plain', 900, 30 + 5 * len(shape) ** 2)
        for shape, W in [((1,) * 8, (0, 1, 2, 3, 4, 5, 6, 7)), ((1,) * 8, (0, 0, 1, 2, 2, 2, 3, 4))]:
            if key != 'btf' or tier == 'thorough':
                add(key, shape, W, 'plain', 1200, 400)
    # Thurstone-Mosteller with three teams: every path (3 guard outcomes per pair evaluation) is a syntactic identity
    for W in H.weak_orders(3):
        ntied = sum(1 for a in range(3) for b in range(a + 1, 3) if W[a] == W[b])
        if ntied <= 1 or tier == 'thorough':
            add('tmp', (1, 1, 1), W, 'plain', 900 if ntied <= 1 else 3000, 100 + 300 * ntied)
        # TM full pairing, all three tied (27+ guard outcomes per pair): exhausts 3000 s on the clean tree - not registered (DESIGN 11)
        if ntied == 0 or W in ((0, 0, 1), (1, 0, 0), (1, 0, 1)) or (tier == 'thorough' and W != (0, 0, 0)):
            add('tmf', (1, 1, 1), W, 'plain', 900 if ntied <= 1 else 3000, 150 + 400 * ntied)
    add('tmp', (2, 1, 1), (1, 0, 2), 'plain', 900, 200)
    add('tmf', (1, 2, 1), (2, 1, 0), 'plain', 900, 300)
    return out


def concrete_gamma(c, k, mu, ss, team, rank):
    """replay gamma: depends on every documented argument, positive"""
    return 0.2 + 0.1 * math.sin(float(c)) ** 2 + 0.03 * k + 0.017 * rank + 0.011 * len(team) + \
        0.05 * math.cos(float(mu)) ** 2 + 0.02 * math.sin(float(ss)) ** 2


def run_job(spec, ctx):
    import z3
    from sx import core
    from ref import wenglin as R
    key, shape, ranks, variant = spec['model'], tuple(spec['shape']), tuple(spec['ranks']), spec['variant']
    core.install()
    Model = H.model_class(key)
    H.set_facts(shape)
    base = H.domain(shape)
    mk = H.sym_maker()
    ls = variant == 'lsuf'
    SM = core.SymMath()
    SN = core.StubNormal()

    class P:
        sqrt = staticmethod(SM.sqrt)
        exp = staticmethod(SM.exp)
        cdf = staticmethod(SN.cdf)
        pdf = staticmethod(SN.pdf)
        max = staticmethod(core.sym_max)

    def run_with(mkf, prims, sym):
        calls = []
        if variant == 'lsuf':
            if sym:
                def G(c, k, mu, ss, team, rank):
                    calls.append((k, rank))
                    return core.uf_app_n('gamma', [c, mu, ss], consts=(k, rank, tuple(id(p) for p in team)),
                                         rf=core.F(0.0, False),
                                         shadow=lambda c_, mu_, ss_: concrete_gamma(c_, k, mu_, ss_, team, rank))
            else:
                G = concrete_gamma
            m, teams = H.build_game(Model, shape, mkf, limit_sigma=ls, gamma=G)
        else:
            G = None
            m, teams = H.build_game(Model, shape, mkf, limit_sigma=ls)
        prior = [[(p.mu, p.sigma) for p in t] for t in teams]
        objs = [list(t) for t in teams]
        if variant == 'scores':
            out = m.rate(teams, scores=[-r for r in ranks])
        else:
            out = m.rate(teams, ranks=list(ranks))
        code = [[(p.mu, p.sigma) for p in t] for t in out]
        ref = R.rate_ref(key, prims, prior, ranks, mkf('beta'), mkf('kappa'), mkf('tau'), gamma=G, limit_sigma=ls,
                         team_objs=objs)
        return code, ref

    opts = {'deadline': ctx.deadline}
    names = H.sym_names(shape)
    first = True
    stats = {}
    for (kind, out), eng in core.iter_paths(lambda: run_with(mk, P, True), base, H.draw_fn(shape), opts=opts, stats=stats):
        ctx.stats = dict(stats)
        ctx.paths = stats['paths']
        if ctx.candidates:
            break  # a witness exists already; the replay decides
        if kind == 'exc':
            ctx.ob(f'path ends in {type(out).__name__}: {out}', 'unknown')
            continue
        code, ref = out
        H.validate_shadows(ctx, eng, code, lambda env: run_with(H.float_maker(env), R.FloatPrims, False)[0])
        if first:
            H.vacuity_check(ctx, eng, core.lift(code[0][0][0]) == z3.Real(H.pname('mu', 0, 0)) + 12345)
            first = False
        diffs = []
        for i, n in enumerate(shape):
            for j in range(n):
                for w, (a, b) in (('mu', (code[i][j][0], ref[i][j][0])), ('sigma', (code[i][j][1], ref[i][j][1]))):
                    ta, tb = core.lift(a), core.lift(b)
                    if ta.eq(tb) or core.is_zero(core.som(ta - tb)):
                        continue
                    diffs.append(ta != tb)
        if not diffs:
            ctx.ob('code == reference for every player (syntactic)', 'syntactic')
            ctx.add_engine(eng)
            continue
        neg = z3.Or(*diffs)
        r, m = eng.check(neg, timeout=spec.get('qt', 60000))
        sample = {'model': key, 'shape': list(shape), 'ranks': list(ranks), 'variant': variant,
                  'negated_obligation_smt2': neg.sexpr()[:500]}
        if r == 'sat':
            cands = [{'inputs': inp, 'model': key, 'shape': list(shape), 'ranks': list(ranks), 'variant': variant}
                     for inp in H.witness_models(eng, neg, names, H.nice_pins(shape))]
            H.mark_last(cands)
            if cands and variant == 'lsuf':
                # the uninterpreted gamma may have to be large or zero for the difference to show
                cands[-1]['__alts__'] = [{'gamma_const': g} for g in (0.0, 1.0, 12.0, 60.0)]
            ctx.ob('code == reference', 'sat' if cands else 'unknown', cands, sample=sample)
        else:
            ctx.ob('code == reference: path & domain & (mu or sigma differs)', r, sample=sample)
        ctx.add_engine(eng)


def replay(cand):
    from ref import wenglin as R
    key, shape, ranks, variant = cand['model'], tuple(cand['shape']), tuple(cand['ranks']), cand['variant']
    inp = cand['inputs']
    ls = variant == 'lsuf'
    cfg = dict(limit_sigma=ls)
    G = None
    if variant == 'lsuf':
        G = concrete_gamma
        if cand.get('gamma_const') is not None:
            gc = float(cand['gamma_const'])
            G = lambda c, k, mu, ss, team, rank: gc     # noqa: E731
        cfg['gamma'] = G
    Model = H.model_class(key)
    m, teams = H.build_game(Model, shape, H.float_maker(inp), **cfg)
    prior = [[(p.mu, p.sigma) for p in t] for t in teams]
    objs = [list(t) for t in teams]
    out = m.rate(teams, scores=[-r for r in ranks]) if variant == 'scores' else m.rate(teams, ranks=list(ranks))
    ref = R.rate_ref(key, R.FloatPrims, prior, ranks, inp['beta'], inp['kappa'], inp['tau'], gamma=G, limit_sigma=ls,
                     team_objs=objs)
    worst = 0.0
    where = None
    for i, (to, tr) in enumerate(zip(out, ref)):
        for j, (p, (a, b)) in enumerate(zip(to, tr)):
            dm = abs(p.mu - a) / max(abs(a), abs(p.mu), inp['beta'])
            ds = abs(p.sigma - b) / max(abs(b), abs(p.sigma), 1e-300)
            if max(dm, ds) > worst:
                worst = max(dm, ds)
                where = (i, j, p.mu, a, p.sigma, b)
    return {'violated': bool(worst > 1e-9),
            'key': f'{key}:{H.shape_str(shape)}:{H.ranks_str(ranks)}:{variant}',
            'detail': f'C01 {H.MODEL_NAMES[key]} shape={shape} ranks={ranks} variant={variant} inputs={inp}: '
                      f'worst relative deviation from the reference {worst:.3g} at (team, player, mu_code, mu_ref, sigma_code, sigma_ref)={where}'}
