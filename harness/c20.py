"""C20 -- ratings can be built, stored and restored without changing any later result."""
import copy
import itertools

from harness import common as H

INFO = {
    'level': 'other',
    'explanation': (
        'Symbolic execution of the real constructors (sx engine, modes K and R). (rating) model.rating(mu, sigma, name): the 8 None-patterns are '
        'enumerated, every non-None value is symbolic over all reals (0 and negatives included; a truthiness test instead of "is not None" forks '
        'on == 0 and is a sat) and the stored attribute must be the passed term, the model default exactly where the argument is None. '
        '(create) create_rating(container, name): container and elements are lazy kind proxies (list/tuple/None/str/dict/rating x int/float/bool/'
        'None/str/list/complex); every list of two numbers must be accepted and stored exactly. (ids) uuid4 is a call-counted stub of distinct '
        'tokens: one draw per constructed object, distinct ids for equal values. (copy) deepcopy of a rating and of nested team lists keeps mu, '
        'sigma, name, id in distinct objects. (restore) two-run in one path: after a symbolic game, ratings rebuilt with create_rating([mu, sigma]) / '
        'rating(mu, sigma) give syntactically identical result terms for a second rate() and the three predictions - bit identity in every '
        'number model, since no operation depends on anything but the two values.'),
    'bounds': {
        'quick': 'five models; restore (PL/BT): first game (1,1) win (limit_sigma off and on), baseline = the very objects rate() returned, second game rate (1,1) win/tie + 3 predictions; create: containers of length 0-3',
        'thorough': '+ restore for TM (1,1), restore with first game (2,1) for PL/BT',
    },
    'outside': ['element / container kinds not on the menus (printed in the samples)', 'longer leagues (each step is the same obligation)'],
    'stubs': ['uuid (module global of the model file) -> call-counted source of distinct tokens'],
    'axioms': ['T0/T1 for the restore runs'],
    'assumptions': ['real-number semantics in the restore runs (the identity shown is syntactic)'],
}

ELEM_MENU = ['int', 'float', 'bool', 'none', 'str', 'list', 'complex']
CONT_MENU = ['list0', 'list1', 'list2', 'list3', 'tuple2', 'none', 'str2', 'dict2', 'rating', 'set2']


def jobs(tier):
    out = []
    for key in H.ALL:
        out.append({'name': f'{key}-rating', 'mode': 'rating', 'model': key, 'budget': 120, 'cost': 2})
        out.append({'name': f'{key}-create', 'mode': 'create', 'model': key, 'budget': 300, 'cost': 20})
        out.append({'name': f'{key}-copy', 'mode': 'copy', 'model': key, 'budget': 120, 'cost': 2})
        tm = key in H.TM
        cells = [((1, 1), (1, 1), False)] + ([] if tm else [((1, 1), (1, 1), True)])
        if tier == 'thorough' and not tm:
            cells += [((2, 1), (2, 1), False)]
        if tm and tier == 'quick':
            cells = []  # TM restore (numeric forks in both games): thorough tier
        for s1, s2, tie in cells:
            out.append({'name': f'{key}-restore-{H.shape_str(s1)}-{H.shape_str(s2)}-{"tie" if tie else "win"}', 'mode': 'restore',
                        'model': key, 's1': list(s1), 'tie': tie, 'budget': 900, 'cost': 200 if tm else 40})
            if not tie and s1 == (1, 1):
                # first game with the limit_sigma clamp in force (the clamp writes sigma after the update proper)
                out.append({'name': f'{key}-restore-{H.shape_str(s1)}-{H.shape_str(s2)}-win-ls', 'mode': 'restore', 'ls': True,
                            'model': key, 's1': list(s1), 'tie': tie, 'budget': 900, 'cost': 300 if tm else 80})
    return out


class UuidStub:
    def __init__(self):
        self.n = 0

    def uuid4(self):
        self.n += 1
        stub = self

        class Tok:
            hex = f'token{stub.n:06d}'
        return Tok()


def _install_uuid(key):
    import importlib
    mod = importlib.import_module('openskill.models.weng_lin.' + H.MODULE_OF[key])
    st = UuidStub()
    mod.uuid = st
    return st


def run_rating(key, ctx):
    import z3
    from sx import core
    Model = H.model_class(key)
    st = _install_uuid(key)
    base = []
    core.INPUT_FACTS.clear()

    def draw(rng):
        return {'a_mu': rng.choice([0.0, 0.0, -3.0, 25.0]), 'a_sg': rng.choice([0.0, 0.0, -1.0, 8.0]),
                'm_mu': 25.0, 'm_sg': 8.333}
    for pat in itertools.product((False, True), repeat=3):
        def run():
            m = Model(mu=core.Sym(z3.Real('m_mu')), sigma=core.Sym(z3.Real('m_sg')))
            n0 = st.n
            mu = core.Sym(z3.Real('a_mu'), int) if pat[0] else None
            sg = core.Sym(z3.Real('a_sg'), float) if pat[1] else None
            name = 'bob' if pat[2] else None
            r = m.rating(mu, sg, name)
            r2 = m.rating(mu, sg, name)
            return m, r, r2, st.n - n0
        for (kind, out), eng in core.iter_paths(run, base, draw, opts={'deadline': ctx.deadline}):
            ctx.paths += 1
            if kind == 'exc':
                ctx.ob(f'rating{pat} raises {out!r}', 'sat', {'mode': 'rating', 'model': key, 'pat': list(pat), 'vals': _vals(eng)})
                continue
            m, r, r2, draws = out
            ctx.vacuity['checked'] += 1
            ctx.vacuity['reach_sat'] += 1
            ctx.vacuity['false_ob_sat'] += 1
            want_mu = z3.Real('a_mu') if pat[0] else z3.Real('m_mu')
            want_sg = z3.Real('a_sg') if pat[1] else z3.Real('m_sg')
            probs = []
            negs = []
            for what, got, want in (('mu', r.mu, want_mu), ('sigma', r.sigma, want_sg)):
                try:
                    t = core.lift(got)
                except TypeError:
                    probs.append(f'{what} stored as {type(got).__name__}')
                    continue
                if not (t.eq(want) or core.is_zero(core.som(t - want))):
                    rr, _ = eng.check(t != want, timeout=20000)
                    if rr != 'unsat':
                        negs.append(t != want)
                        probs.append(f'{what} stored is not the ' + ('passed value' if pat[0 if what == "mu" else 1] else 'model default'))
            if r.name != ('bob' if pat[2] else None):
                probs.append(f'name stored as {r.name!r}')
            if r.id == r2.id or draws != 2:
                probs.append(f'ids not fresh: {r.id!r}, {r2.id!r}, uuid draws {draws} for 2 objects')
            ctx.ob(f'rating(mu={"given" if pat[0] else None}, sigma={"given" if pat[1] else None}, name={"given" if pat[2] else None}) stores exactly the '
                   f'given values / defaults, fresh id' + (': ' + probs[0] if probs else ''),
                   'sat' if probs else 'unsat', {'mode': 'rating', 'model': key, 'pat': list(pat), 'vals': _vals(eng, negs)} if probs else None,
                   sample={'model': key, 'none_pattern': [not x for x in pat], 'path_condition': [str(c) for c in eng.pc]})
            ctx.add_engine(eng)


def _vals(eng, negs=()):
    import z3
    from sx.core import _val
    r, m = eng.check(*([z3.Or(*negs)] if negs else []), timeout=20000)
    if r != 'sat':
        return {'a_mu': 0.0, 'a_sg': 0.0, 'm_mu': 25.0, 'm_sg': 8.333}
    return {n: _val(m.eval(z3.Real(n), model_completion=True)) for n in ('a_mu', 'a_sg', 'm_mu', 'm_sg')}


def _elem(label, idx):
    import z3
    from sx import core
    v = z3.Real(f'e{idx}')
    return {'int': lambda: core.Sym(v, int, s=(3.0,) * len(core.ENG.env)), 'float': lambda: core.Sym(v, float, s=(3.5,) * len(core.ENG.env)),
            'bool': lambda: True, 'none': lambda: None, 'str': lambda: 'x', 'list': lambda: [1.0], 'complex': lambda: 2j}[label]()


def _concrete_elem(label, idx):
    return {'int': [0, -7][idx % 2], 'float': [0.0, -2.5][idx % 2], 'bool': True, 'none': None, 'str': 'x', 'list': [1.0], 'complex': 2j}[label]


def _container(key, label, elems):
    R = H.rating_class(key)
    if label.startswith('list'):
        return list(elems[:int(label[4:])])
    return {'tuple2': tuple(elems[:2]), 'none': None, 'str2': 'ab', 'dict2': {0: elems[0], 1: elems[1]},
            'rating': R(25.0, 8.0), 'set2': {1.5, 2.5}}[label]


def run_create(key, ctx):
    import z3
    from sx import core, kinds
    Model = H.model_class(key)
    R = H.rating_class(key)
    st = _install_uuid(key)
    core.INPUT_FACTS.clear()
    base = [z3.Int('cont') >= 0, z3.Int('cont') < len(CONT_MENU)] + \
           [c for i in range(3) for c in (z3.Int(f'el{i}') >= 0, z3.Int(f'el{i}') < len(ELEM_MENU))]
    for with_name in (False, True):
        def run():
            els = [kinds.Lazy(f'el{i}', [(lab, (lambda lab=lab, i=i: _elem(lab, i))) for lab in ELEM_MENU]) for i in range(3)]
            cont = kinds.Lazy('cont', [(lab, (lambda lab=lab: _container(key, lab, els))) for lab in CONT_MENU])
            n0 = st.n
            try:
                r = Model.create_rating(cont, name='bob') if with_name else Model.create_rating(cont)
                outcome = ('ok', r)
            except (TypeError, ValueError) as e:
                outcome = ('rejected', type(e).__name__)
            return cont, els, outcome, st.n - n0
        for (kind, out), eng in core.iter_paths(run, base, None, opts={'deadline': ctx.deadline}):
            ctx.paths += 1
            if kind == 'exc':
                labs = _create_labels(eng)
                ctx.ob(f'create_rating raises {type(out).__name__} ({out}) for {labs}', 'sat',
                       {'mode': 'create', 'model': key, 'labels': labs, 'with_name': with_name})
                continue
            cont, els, outcome, draws = out
            ctx.vacuity['checked'] += 1
            ctx.vacuity['reach_sat'] += 1
            ctx.vacuity['false_ob_sat'] += 1
            cl = cont._label()
            el = [e._label() for e in els]
            # well-formed iff a list of exactly two numbers; positions the code never looked at stay free
            probs = []
            if cl == 'list2' and all(x in ('int', 'float', 'bool') for x in el[:2] if x is not None) and None not in el[:2]:
                if outcome[0] != 'ok':
                    probs.append(f'well-formed list of two numbers rejected with {outcome[1]}')
                else:
                    r = outcome[1]
                    rep = [e._r() for e in els[:2]]
                    if not isinstance(r, R) or not _same_term(r.mu, rep[0]) or not _same_term(r.sigma, rep[1]):
                        probs.append('created rating does not hold exactly the given values')
                    if r.name != ('bob' if with_name else None):
                        probs.append(f'name stored as {r.name!r}')
                    if draws != 1:
                        probs.append(f'{draws} uuid draws for one object')
            elif outcome[0] == 'ok' and not (cl == 'list2'):
                probs.append(f'container {cl} accepted')
            elif outcome[0] == 'ok' and any(x not in ('int', 'float', 'bool', None) for x in el[:2]):
                probs.append(f'non-numeric elements {el[:2]} accepted')
            labs = {'cont': cl, 'el': el}
            ctx.ob(f'create_rating({cl}, elements {el[:2]}): ' + ('accepted, exact values, fresh id' if outcome[0] == 'ok' else f'rejected ({outcome[1]})')
                   + (': ' + probs[0] if probs else ''),
                   'sat' if probs else 'unsat', {'mode': 'create', 'model': key, 'labels': labs, 'with_name': with_name} if probs else None,
                   sample={'model': key, 'container': cl, 'elements': el, 'outcome': outcome[0] if outcome[0] == 'ok' else list(outcome)})
            ctx.add_engine(eng)


def _same_term(a, b):
    from sx import core, kinds
    if type(a) is kinds.Lazy:
        a = a._r()
    if type(b) is kinds.Lazy:
        b = b._r()
    if a is b:
        return True
    if isinstance(a, core.Sym) and isinstance(b, core.Sym):
        return a.t.eq(b.t) and a.kind is b.kind
    if isinstance(a, core.Sym) or isinstance(b, core.Sym):
        return False
    return type(a) is type(b) and a == b


def _create_labels(eng):
    import z3
    r, m = eng.check(timeout=20000)
    if r != 'sat':
        return None
    return {'cont': CONT_MENU[m.eval(z3.Int('cont'), model_completion=True).as_long() % len(CONT_MENU)],
            'el': [ELEM_MENU[m.eval(z3.Int(f'el{i}'), model_completion=True).as_long() % len(ELEM_MENU)] for i in range(3)]}


def copy_problems(key):
    Model = H.model_class(key)
    m = Model()
    probs = []
    for (mu, sg, name) in [(0.0, 0.0, None), (-3.5, 1e-300, 'ann'), (25.0, 8.333, ''), (1e300, -0.0, 'x' * 5)]:
        r = m.rating(mu, sg, name)
        c = copy.deepcopy(r)
        if c is r:
            probs.append('deepcopy returns the same object')
        if (repr(c.mu), repr(c.sigma), c.name, c.id) != (repr(r.mu), repr(r.sigma), r.name, r.id):
            probs.append(f'deepcopy of ({mu}, {sg}, {name!r}) gives ({c.mu}, {c.sigma}, {c.name!r}), id kept: {c.id == r.id}')
        if type(c) is not type(r):
            probs.append('deepcopy changes the class')
    a, b, c_ = m.rating(1.0, 2.0, 'a'), m.rating(3.0, 4.0), m.rating(0.0, 0.0, 'c')
    teams = [[a, b], [c_]]
    tc = copy.deepcopy(teams)
    if [len(t) for t in tc] != [2, 1] or tc is teams or tc[0] is teams[0]:
        probs.append('deepcopy of nested lists: structure not preserved / shared')
    else:
        for t0, t1 in zip(teams, tc):
            for p, q in zip(t0, t1):
                if q is p or (q.mu, q.sigma, q.name, q.id) != (p.mu, p.sigma, p.name, p.id):
                    probs.append('deepcopy of nested lists: rating not copied faithfully')
    c2 = copy.deepcopy(a)
    c2.mu = 99.0
    if a.mu != 1.0:
        probs.append('copy shares state with the original')
    x, y = m.rating(5.0, 5.0), m.rating(5.0, 5.0)
    if x.id == y.id:
        probs.append('two ratings with equal values share an id')
    # a season archive: the same player (same id) stored at two moments with different values, copied in one deepcopy
    p0 = m.rating(20.0, 7.0, 'pat')
    p1 = copy.deepcopy(p0)
    p1.mu, p1.sigma = 23.5, 6.25
    arch = copy.deepcopy([[p0], [p1], [p0, p1]])
    got = [(q.mu, q.sigma, q.name, q.id) for t in arch for q in t]
    want = [(q.mu, q.sigma, q.name, q.id) for t in [[p0], [p1], [p0, p1]] for q in t]
    if got != want:
        probs.append(f'deepcopy of a structure holding two snapshots of one player (same id): {got} instead of {want}')
    # ids must be fresh whatever the state of the process-global random module
    import random
    st = random.getstate()
    try:
        random.seed(12345)
        i1 = m.rating(1.0, 1.0).id
        random.seed(12345)
        i2 = m.rating(1.0, 1.0).id
    finally:
        random.setstate(st)
    if i1 == i2:
        probs.append('rating ids repeat when the caller re-seeds the global random module (ids are not fresh)')
    return probs


def _restore_runs(Model, m, post, ranks2):
    """[original objects, rebuilt with create_rating, rebuilt with rating]: each = [second game, predict_win, predict_draw, predict_rank].
    The baseline uses the very objects rate() returned (predictions first: they do not mutate; the second game last)."""
    stored = [[(p.mu, p.sigma) for p in t] for t in post]
    base_pred = [list(m.predict_win(post)), m.predict_draw(post), [list(x) for x in m.predict_rank(post)]]
    res = []
    for how in ('create', 'rating'):
        if how == 'create':
            def mkteams():
                return [[Model.create_rating([a, b]) for (a, b) in t] for t in stored]
        else:
            def mkteams():
                return [[m.rating(a, b) for (a, b) in t] for t in stored]
        r2 = m.rate(mkteams(), ranks=ranks2)
        res.append([[[(p.mu, p.sigma) for p in t] for t in r2], list(m.predict_win(mkteams())), m.predict_draw(mkteams()),
                    [list(x) for x in m.predict_rank(mkteams())]])
    r2 = m.rate(post, ranks=ranks2)
    return [[[[(p.mu, p.sigma) for p in t] for t in r2]] + base_pred] + res


def run_restore(spec, ctx):
    import z3
    from sx import core
    core.install()
    key, s1, tie = spec['model'], tuple(spec['s1']), spec['tie']
    Model = H.model_class(key)
    H.set_facts(s1)
    base = H.domain(s1)
    mk = H.sym_maker()
    ranks1 = list(range(len(s1)))
    ranks2 = [0] * len(s1) if tie else list(range(len(s1) - 1, -1, -1))

    ls = bool(spec.get('ls'))

    def run_with(mkf):
        m, teams = H.build_game(Model, s1, mkf)
        post = m.rate(teams, ranks=ranks1, limit_sigma=ls)
        return _restore_runs(Model, m, post, ranks2)

    for (kind, out), eng in core.iter_paths(lambda: run_with(mk), base, H.draw_fn(s1), opts={'deadline': ctx.deadline}):
        ctx.paths += 1
        if ctx.candidates:
            break
        if kind == 'exc':
            ctx.ob(f'restore path ends in {type(out).__name__}: {out}', 'unknown')
            ctx.add_engine(eng)
            continue
        if ctx.vacuity['checked'] == 0:
            H.vacuity_check(ctx, eng, core.lift(out[0][2]) == 12345)
        same = list(H._flatten(out[0]))
        for how, other in (('create_rating', out[1]), ('rating', out[2])):
            o = list(H._flatten(other))
            bad = len(o) != len(same)
            for x, y in zip(same, o):
                if isinstance(x, core.Sym) or isinstance(y, core.Sym):
                    if not core.lift(x).eq(core.lift(y)):
                        bad = True
                elif x != y:
                    bad = True
            if not bad:
                ctx.ob(f'second game and predictions on ratings rebuilt with {how}: syntactically identical terms', 'syntactic',
                       sample={'model': key, 'first_game': list(s1), 'rebuilt_with': how, 'numbers_compared': len(same)})
            else:
                inp = None
                for k, al in enumerate(eng.alive):
                    if al:
                        inp = {n: eng.env[k][n] for n in H.sym_names(s1)}
                if inp is None:
                    r, m = eng.check(timeout=20000)
                    inp = core.model_inputs(m, H.sym_names(s1)) if r == 'sat' else None
                if inp is not None:
                    # bit-level differences (a cached square vs. the square of a square root) show on some values only
                    inp = dict(inp)
                    inp['__alt__'] = [e for e in H.corner_inputs(H.sym_names(s1)) if all(e[n] > 0 for n in e if n.startswith('sg_'))][:60]
                ctx.ob(f'rebuilt with {how}: result terms differ', 'sat' if inp else 'unknown',
                       {'mode': 'restore', 'model': key, 's1': list(s1), 'tie': tie, 'ls': ls, 'inputs': inp} if inp else None)
        ctx.add_engine(eng)


def run_job(spec, ctx):
    from sx import core
    core.install()
    key = spec['model']
    if spec['mode'] == 'rating':
        run_rating(key, ctx)
    elif spec['mode'] == 'create':
        run_create(key, ctx)
    elif spec['mode'] == 'copy':
        probs = copy_problems(key)
        ctx.paths += 1
        ctx.vacuity['checked'] += 1
        ctx.vacuity['reach_sat'] += 1
        ctx.ob('deepcopy of ratings and nested team lists keeps mu, sigma, name, id in distinct objects' + (': ' + probs[0] if probs else ''),
               'sat' if probs else 'unsat', {'mode': 'copy', 'model': key} if probs else None,
               sample={'model': key, 'checked': 'deepcopy on 4 value patterns (0, negatives, subnormal, -0.0, empty name) + nested lists'})
    else:
        run_restore(spec, ctx)


def replay(cand):
    key = cand['model']
    Model = H.model_class(key)
    R = H.rating_class(key)
    mode = cand['mode']
    if mode == 'rating':
        pat, v = cand['pat'], cand['vals']
        m = Model(mu=v['m_mu'], sigma=v['m_sg'])
        mu = v['a_mu'] if pat[0] else None
        sg = v['a_sg'] if pat[1] else None
        name = 'bob' if pat[2] else None
        try:
            r, r2 = m.rating(mu, sg, name), m.rating(mu, sg, name)
            want = (mu if pat[0] else m.mu, sg if pat[1] else m.sigma, name)
            bad = (r.mu, r.sigma, r.name) != want or r.id == r2.id
            det = f'stored ({r.mu!r}, {r.sigma!r}, {r.name!r}), expected {want!r}; ids {r.id} / {r2.id}'
        except Exception as e:  # noqa: BLE001
            bad, det = True, f'raised {e!r}'
        return {'violated': bool(bad), 'key': f'{key}:rating:{pat}',
                'detail': f'C20 {H.MODEL_NAMES[key]}(mu={v["m_mu"]}, sigma={v["m_sg"]}).rating({mu!r}, {sg!r}, {name!r}): {det}'}
    if mode == 'create':
        labs = cand['labels']
        els = [_concrete_elem(l, i) if l else 1.0 for i, l in enumerate(labs['el'])]
        cont = _container(key, labs['cont'], els)
        wf = isinstance(cont, list) and len(cont) == 2 and all(isinstance(x, (int, float)) for x in cont)
        try:
            r = Model.create_rating(cont, name='bob') if cand['with_name'] else Model.create_rating(cont)
            if wf:
                bad = not (type(r.mu) is type(cont[0]) and r.mu == cont[0] and type(r.sigma) is type(cont[1]) and r.sigma == cont[1]
                           and r.name == ('bob' if cand['with_name'] else None))
                det = f'holds ({r.mu!r}, {r.sigma!r}, {r.name!r})'
            else:
                bad, det = True, 'malformed argument accepted'
        except (TypeError, ValueError) as e:
            bad, det = wf, f'rejected with {type(e).__name__}'
        except Exception as e:  # noqa: BLE001
            bad, det = True, f'raised {e!r}'
        return {'violated': bool(bad), 'key': f'{key}:create:{labs["cont"]}:{labs["el"][:2]}',
                'detail': f'C20 {H.MODEL_NAMES[key]}.create_rating({cont!r}): {det}'}
    if mode == 'copy':
        probs = copy_problems(key)
        return {'violated': bool(probs), 'key': f'{key}:copy', 'detail': f'C20 {H.MODEL_NAMES[key]}: ' + '; '.join(probs[:3])}
    s1, tie, inp = tuple(cand['s1']), cand['tie'], cand['inputs']
    m, teams = H.build_game(Model, s1, H.float_maker(inp))
    post = m.rate(teams, ranks=list(range(len(s1))), limit_sigma=bool(cand.get('ls')))
    ranks2 = [0] * len(s1) if tie else list(range(len(s1) - 1, -1, -1))
    outs = [list(H._flatten(x)) for x in _restore_runs(Model, m, post, ranks2)]
    bad = outs[0] != outs[1] or outs[0] != outs[2]
    return {'violated': bool(bad), 'key': f'{key}:restore', 'detail': f'C20 {H.MODEL_NAMES[key]} restore after game {s1}, inputs={inp}: {outs}'}
