"""C04 -- rate() is equivariant under reordering of teams and of players within a team."""
import itertools

from harness import common as H

INFO = {
    'level': 'other',
    'explanation': (
        'Two-run symbolic execution of the real rate() in one path (sx engine, mode R): the game as given, and the same game with the teams '
        'listed in a permuted order (ranks permuted alongside) and/or the players of every team reversed (rotated as well for a three-player team). Both runs share their primitive '
        'applications (eager congruence), so the obligation "posterior of every player identical" is a syntactic identity after normalisation or '
        'a small z3 query. Per shape: every weak order x every permutation of the teams (n! for n <= 3, 4 in thorough); for the two '
        'partial-pairing models only permutations that keep mutually tied teams in their original relative order, as the property states. '
        'mu, sigma, beta, tau, kappa symbolic over the whole domain.'),
    'bounds': {
        'quick': 'PL/BT: shapes (1,1),(2,1) x 3 orders x all perms + player reversal, (1,1,1) x 13 orders x 5 perms, (2,1,2) x 3 orders x 2 perms, limit_sigma on for (2,1) and two (1,1,1) orders; TM: (1,1),(2,1) strict orders',
        'thorough': '+ (1,1,1,1) x 75 orders x 23 perms for PL/BT, TM (1,1) ties, TM-part (1,1,1) strict',
    },
    'outside': ['IEEE rounding', 'n >= 5 teams, 3+ players per team', 'TM full pairing with 3+ teams'],
    'stubs': None,
    'axioms': ['T0/T1 (DESIGN 2.2)'],
    'assumptions': ['real-number semantics (mode R)', 'arithmetic guards assumed (C08)'],
}


def _perms_for(key, ranks):
    n = len(ranks)
    ps = []
    for p in itertools.permutations(range(n)):
        if p == tuple(range(n)):
            continue
        if key in ('btp', 'tmp'):
            # keep mutually tied teams in their original relative order: new position order of tied teams increasing
            ok = True
            pos = {team: k for k, team in enumerate(p)}  # team -> new position
            for a, b in itertools.combinations(range(n), 2):
                if ranks[a] == ranks[b] and pos[a] > pos[b]:
                    ok = False
            if not ok:
                continue
        ps.append(p)
    return ps


def jobs(tier):
    out = []

    def add(key, shape, ranks, budget, cost, maxperm=None, ls=False):
        out.append({'name': f'{key}-{H.shape_str(shape)}-{H.ranks_str(ranks)}' + ('-ls' if ls else ''), 'model': key, 'shape': list(shape),
                    'ranks': list(ranks), 'budget': budget, 'cost': cost, 'maxperm': maxperm, 'ls': ls})
    for key in H.ALL:
        tm = key in H.TM
        for shape in [(1, 1), (2, 1)]:
            for W in H.weak_orders(2):
                if tm and W[0] == W[1] and (tier == 'quick' or shape == (2, 1)):
                    continue
                add(key, shape, W, 300 if tier == 'quick' else 1800, 100 if tm else 5)
        if not tm:
            # limit_sigma in force: the clamp pairs results with the deep-copied originals by position
            for W in H.weak_orders(2):
                add(key, (2, 1), W, 600, 60, ls=True)
            for W in [(1, 2, 0), (0, 0, 1)]:
                add(key, (1, 1, 1), W, 600, 60, maxperm=2, ls=True)
            for W in H.weak_orders(3):
                add(key, (1, 1, 1), W, 300, 20)
            for W in [(0, 1, 2), (1, 0, 1), (0, 0, 0)]:
                add(key, (2, 1, 2), W, 600, 100, maxperm=2)
            add(key, (3, 1), (1, 0), 600, 60)
            if tier == 'thorough':
                for W in H.weak_orders(4):
                    add(key, (1, 1, 1, 1), W, 2400, 600)
    if tier == 'thorough':
        for W in [(0, 1, 2), (1, 2, 0)]:
            add('tmp', (1, 1, 1), W, 2400, 1500, maxperm=2)
    return out


def _run(key, shape, ranks, perm, reverse, mk, ls=False):
    Model = H.model_class(key)
    out = []
    for which in (0, 1):
        m, teams = H.build_game(Model, shape, mk, limit_sigma=ls)
        r = list(ranks)
        if which == 1:
            if reverse == 'rot':
                teams = [t[1:] + t[:1] for t in teams]
            elif reverse:
                teams = [list(reversed(t)) for t in teams]
            teams = [teams[p] for p in perm]
            r = [ranks[p] for p in perm]
        res = m.rate(teams, ranks=r)
        vals = [[(p.mu, p.sigma) for p in t] for t in res]
        if which == 1:
            # map back to the original presentation
            back = [None] * len(shape)
            for k, p in enumerate(perm):
                back[p] = (vals[k][-1:] + vals[k][:-1]) if reverse == 'rot' else list(reversed(vals[k])) if reverse else vals[k]
            vals = back
        out.append(vals)
    return out


def run_job(spec, ctx):
    import z3
    from sx import core
    core.install()
    key, shape, ranks = spec['model'], tuple(spec['shape']), tuple(spec['ranks'])
    n = len(shape)
    H.set_facts(shape)
    base = H.domain(shape)
    mk = H.sym_maker()
    names = H.sym_names(shape)
    perms = _perms_for(key, ranks)
    if spec.get('maxperm'):
        perms = perms[:: max(1, len(perms) // spec['maxperm'])][:spec['maxperm']]
    variants = [(p, False) for p in perms]
    if any(k > 1 for k in shape):
        variants.append((tuple(range(n)), True))
        if perms:
            variants.append((perms[-1], True))
    if any(k > 2 for k in shape):
        # three or more teammates: a rotation as well (an accumulation that depends on where the largest value comes)
        variants.append((tuple(range(n)), 'rot'))
    for perm, reverse in variants:
        if ctx.candidates:
            break
        for (kind, out), eng in core.iter_paths(lambda: _run(key, shape, ranks, perm, reverse, mk, spec.get('ls', False)), base, H.draw_fn(shape),
                                                opts={'deadline': ctx.deadline}):
            ctx.paths += 1
            if kind == 'exc':
                ctx.ob(f'perm={perm}: path ends in {type(out).__name__}: {out}', 'unknown')
                ctx.add_engine(eng)
                continue
            a, b = out
            H.validate_shadows(ctx, eng, out, lambda env: _run(key, shape, ranks, perm, reverse, H.float_maker(env), spec.get('ls', False)))
            if ctx.vacuity['checked'] == 0:
                H.vacuity_check(ctx, eng, core.lift(a[0][0][0]) == z3.Real(H.pname('mu', 0, 0)) + 12345)
            diffs = []
            for ta, tb in zip(a, b):
                for (ma, sa), (mb, sb) in zip(ta, tb):
                    for x, y in ((ma, mb), (sa, sb)):
                        tx, ty = core.lift(x), core.lift(y)
                        if tx.eq(ty) or core.is_zero(core.som(tx - ty)):
                            continue
                        diffs.append(tx != ty)
            desc = f'teams permuted by {perm}' + (' and players rotated' if reverse == 'rot' else ' and players reversed' if reverse else '') + ': same posterior for every player'
            sample = {'model': key, 'shape': list(shape), 'ranks': list(ranks), 'perm': list(perm), 'players_reversed': reverse}
            if not diffs:
                ctx.ob(desc + ' (syntactic identity)', 'syntactic', sample=sample)
            else:
                neg = z3.Or(*diffs)
                r, m = eng.check(neg, timeout=60000)
                if r == 'sat':
                    cands = [{'inputs': inp, 'model': key, 'shape': list(shape), 'ranks': list(ranks), 'perm': list(perm),
                              'reverse': reverse, 'ls': spec.get('ls', False)} for inp in H.witness_models(eng, neg, names, H.nice_pins(shape))]
                    H.mark_last(cands)
                    ctx.ob(desc, 'sat' if cands else 'unknown', cands, sample=sample)
                else:
                    ctx.ob(desc, r, sample=sample)
            ctx.add_engine(eng)


def replay(cand):
    key, shape, ranks, perm, reverse = cand['model'], tuple(cand['shape']), tuple(cand['ranks']), tuple(cand['perm']), cand['reverse']
    inp = cand['inputs']
    a, b = _run(key, shape, ranks, perm, reverse, H.float_maker(inp), cand.get('ls', False))
    worst = 0.0
    for ta, tb in zip(a, b):
        for (ma, sa), (mb, sb) in zip(ta, tb):
            worst = max(worst, abs(ma - mb) / max(abs(ma), abs(mb), inp['beta']), abs(sa - sb) / max(abs(sa), abs(sb), 1e-300))
    return {'violated': bool(worst > 1e-9), 'key': f'{key}:{H.shape_str(shape)}:{H.ranks_str(ranks)}:perm={perm}:rev={reverse}',
            'detail': f'C04 {H.MODEL_NAMES[key]} shape={shape} ranks={ranks} perm={perm} players_reversed={reverse} inputs={inp}: '
                      f'posteriors differ by {worst:.3g} relative: {a} vs {b}'}
