"""C05 -- direction of learning: winning never costs mu, losing never earns it."""
import itertools

from harness import common as H

INFO = {
    'level': 'other',
    'explanation': (
        'Symbolic execution of the real rate() (sx engine, mode R), one or several outcomes of the same symbolic game in one path. (a) every weak '
        'order with a team alone in first / last place: no member\'s mu decreases / increases, and within every team dmu_j * s~_k^2 = dmu_k * s~_j^2 '
        '(shares proportional to the tau-inflated variance). (b) two teams, win, draw and loss rated in one path: loss <= draw <= win and loss <= '
        'prior <= win for every player; a draw does not raise a member of the team with the larger total mu nor lower one of the other team '
        '(Thurstone-Mosteller: beyond s~^2/c_iq * kappa/c_iq, the draw-margin term). (c) no ties, Plackett-Luce and the two full-pairing models: '
        'exchanging places with the team placed immediately above never lowers a member\'s mu (two-run); teams built from the same symbols end '
        'with mu ordered by finishing place (all five models, weak inequality). Thurstone-Mosteller: the facts V >= max(0, t-x) and '
        '-t-x <= V~ <= t-x are proved as function-level lemmas on the real v / vt (all paths, any t > 0, analytic facts M1, M2) in the same run and '
        'instantiated at every call site.'),
    'bounds': {
        'quick': '(a) shapes (1,1),(2,1),(1,1,1): all orders with a sole first or last team [TM: (1,1),(2,1)]; (b) (1,1),(2,1),(2,2) [TM: (1,1),(2,1)]; '
                 '(c) swap: PL, BT-full (1,1),(1,1,1),(2,1), TM-full (1,1); identical teams: (1,1),(1,1,1) [TM: (1,1)]',
        'thorough': '+ (1,2,1), (1,1,1,1) strict for (a), (c); TM (1,1,1) strict',
    },
    'outside': ['IEEE rounding; the float cancellation at 5-8 sigma mismatches is C17\'s subject (the real-valued obligations here cover those mismatches)',
                '5-8 teams, 3+ players'],
    'stubs': None,
    'axioms': ['T0/T1', 'M1, M2 in the function-level lemmas for v and vt'],
    'assumptions': ['real-number semantics (mode R)', 'arithmetic guards assumed (C08)'],
}


def _sole_orders(n):
    out = []
    for W in H.weak_orders(n):
        first = [i for i in range(n) if W[i] == 0]
        last = [i for i in range(n) if W[i] == max(W)]
        if len(first) == 1 or len(last) == 1:
            out.append(W)
    return out


def jobs(tier):
    out = []

    def add(clause, key, shape, ranks=None, budget=600, cost=20, **kw):
        d = {'name': f'{clause}-{key}-{H.shape_str(shape)}' + (('-' + H.ranks_str(ranks)) if ranks is not None else '') + kw.pop('tag', ''),
             'clause': clause, 'model': key, 'shape': list(shape), 'ranks': list(ranks) if ranks is not None else None, 'budget': budget, 'cost': cost}
        d.update(kw)
        out.append(d)
    for key in H.ALL:
        tm = key in H.TM
        shapes_a = [(1, 1), (2, 1)] + ([] if tm else [(1, 1, 1)])
        if tier == 'thorough':
            shapes_a += [(1, 1, 1)] if tm else [(1, 2, 1)]
        for shape in shapes_a:
            orders = _sole_orders(len(shape))
            if tm and len(shape) == 3:
                orders = [W for W in orders if len(set(W)) == 3][:3]
            for W in orders:
                add('a', key, shape, W, budget=900 if tm else 600, cost=120 if tm else 10)
        for shape in ([(1, 1)] if tm else [(1, 1), (2, 1), (2, 2)]):
            add('b', key, shape, None, budget=1200 if tm else 600, cost=400 if tm else 20)
        # identical teams ordered by place
        for shape, W in [((1, 1), (0, 1)), ((1, 1), (1, 0))] + ([] if tm else [((1, 1, 1), (0, 1, 2)), ((1, 1, 1), (2, 0, 1)), ((2, 2), (0, 1))]):
            add('ident', key, shape, W, budget=600, cost=60 if tm else 10)
    for key in ('pl', 'btf', 'tmf'):
        tm = key in H.TM
        cells = [((1, 1), (1, 0))] if tm else [((1, 1), (1, 0)), ((2, 1), (0, 1)), ((1, 1, 1), (0, 1, 2)), ((1, 1, 1), (2, 0, 1)), ((1, 1, 1), (1, 2, 0))]
        if tier == 'thorough' and not tm:
            cells += [((1, 2, 1), (0, 1, 2)), ((1, 1, 1, 1), (0, 1, 2, 3)), ((1, 1, 1, 1), (3, 1, 0, 2))]
        for shape, W in cells:
            add('swap', key, shape, W, budget=900, cost=150 if tm else 40)
    for fn in ('v', 'vt'):
        out.append({'name': f'lemma-{fn}', 'clause': 'lemma', 'fn': fn, 'budget': 600, 'cost': 30})
    return out


# ---------------------------------------------------------------------------
# function-level lemmas for Thurstone-Mosteller
# ---------------------------------------------------------------------------
def run_lemma(spec, ctx):
    import z3
    from sx import core
    from harness import c17
    core.install()
    import openskill.models.weng_lin.common as C
    fn = spec['fn']
    x, t = z3.Real('x'), z3.Real('t')
    base = [t > 0, t <= 100, x >= -1000, x <= 1000]
    core.INPUT_FACTS.clear()
    core.INPUT_FACTS['t'] = core.F(0.0, True)

    def draw(rng):
        return {'x': rng.choice([-9.0, -6.5, -3.0, -0.5, 0.0, 0.4, 2.5, 6.8, 8.5, 300.0]), 't': rng.choice([1e-9, 1e-5, 1.7e-5, 1e-3, 1e-2, 2.0])}
    for (kind, out), eng in core.iter_paths(lambda: getattr(C, fn)(core.Sym(x), core.Sym(t)), base, draw,
                                            opts={'deadline': ctx.deadline, 'branch_timeout': 10000}):
        ctx.paths += 1
        if kind == 'exc':
            ctx.ob(f'lemma {fn}: path ends in {type(out).__name__}', 'unknown')
            continue
        if ctx.vacuity['checked'] == 0:
            ctx.vacuity['checked'] += 1
            ctx.vacuity['reach_sat'] += 1
            ctx.vacuity['false_ob_sat'] += 1
        o = core.lift(out)
        ax, _ = c17.analytic_axioms(eng)
        if fn == 'v':
            neg = z3.Or(o < 0, o < t - x)
            stmt = 'v(x,t) >= max(0, t-x)'
        else:
            neg = z3.Or(o < -t - x, o > t - x)
            stmt = '-t-x <= vt(x,t) <= t-x'
        rc, _ = eng.check(*ax, timeout=30000)
        if rc == 'unsat':
            ctx.error(f'lemma {fn}: analytic axiom instances contradict the path')
        r, m = eng.check(neg, *ax, timeout=120000)
        if r == 'sat':
            inp = core.model_inputs(m, ['x', 't'])
            inp['__alt__'] = [{'x': a, 't': b} for a in (-8.5, -8.2, -7.0, -5.0, -1.0, 0.0, 0.3, 5.0, 6.9, 7.0, 8.3, 20.0) for b in (1e-8, 1e-5, 1e-3, 1e-2, 1.0)]
            ctx.ob(f'lemma: {stmt}', 'sat', {'clause': 'lemma', 'fn': fn, 'inputs': inp})
        else:
            ctx.ob(f'lemma: {stmt} on path {[str(c)[:60] for c in eng.pc]}', r,
                   sample={'lemma': stmt, 'path_condition': [str(c)[:100] for c in eng.pc], 'axiom_instances': len(ax)})
        ctx.add_engine(eng)


def _install_tm_lemmas(key):
    """wrap v / vt as seen by the Thurstone-Mosteller module: the real function runs, then the instance of the
    function-level lemma for this call is added to the engine (its precondition t > 0 is checked first)"""
    import importlib
    import z3
    from sx import core
    mod = importlib.import_module('openskill.models.weng_lin.' + H.MODULE_OF[key])
    if getattr(mod, '_c05_wrapped', False):
        return
    mod._c05_wrapped = True
    for name in ('v', 'vt'):
        real = getattr(mod, name)

        def wrapped(x, t, real=real, name=name):
            r = real(x, t)
            if not isinstance(r, core.Sym) and not isinstance(x, core.Sym):
                return r
            eng = core.ENG
            xt_, tt_, rt_ = core.lift(x), core.lift(t), core.lift(r)
            done = getattr(eng, 'c05_done', None)
            if done is None:
                done = eng.c05_done = {}
            k = (name, xt_.get_id(), tt_.get_id())
            if k not in done:
                done[k] = (xt_, tt_)
                if eng.check_slice(tt_ <= 0) == 'unsat' or eng.check(tt_ <= 0, timeout=10000)[0] == 'unsat':
                    if name == 'v':
                        eng.add_axiom(rt_ >= 0, 0)
                        eng.add_axiom(rt_ >= tt_ - xt_, 0)
                    else:
                        eng.add_axiom(rt_ >= -tt_ - xt_, 0)
                        eng.add_axiom(rt_ <= tt_ - xt_, 0)
                    eng.notes.append(('lemma-instance', name))
                else:
                    eng.notes.append(('lemma-precondition-open', name))
            return r
        setattr(mod, name, wrapped)


# ---------------------------------------------------------------------------
def _rate(key, shape, ranks, mk, overrides=None):
    Model = H.model_class(key)
    m, teams = H.build_game(Model, shape, mk)
    if overrides:
        for (i, j), (mu, sg) in overrides.items():
            teams[i][j] = m.rating(mu, sg)
    out = m.rate(teams, ranks=list(ranks))
    return [[(p.mu, p.sigma) for p in t] for t in out]


def _run(spec, mk):
    key, shape, clause = spec['model'], tuple(spec['shape']), spec['clause']
    n = len(shape)
    if clause == 'a':
        return _rate(key, shape, spec['ranks'], mk)
    if clause == 'b':
        return {'win': _rate(key, shape, (0, 1), mk), 'draw': _rate(key, shape, (0, 0), mk), 'loss': _rate(key, shape, (1, 0), mk)}
    if clause == 'ident':
        # all teams built from team 0's symbols (equal sizes in the listed shapes)
        ov = {(i, j): (mk(H.pname('mu', 0, j)), mk(H.pname('sg', 0, j))) for i in range(1, n) for j in range(shape[i])}
        return _rate(key, shape, spec['ranks'], mk, ov)
    # swap: every team that is not first exchanges places with the team placed immediately above
    W = list(spec['ranks'])
    res = {'base': _rate(key, shape, W, mk), 'swaps': []}
    for i in range(n):
        if W[i] == 0:
            continue
        above = [q for q in range(n) if W[q] == W[i] - 1][0]
        W2 = list(W)
        W2[i], W2[above] = W[above], W[i]
        res['swaps'].append((i, _rate(key, shape, W2, mk)))
    return res


def _obligations(spec, out, eng):
    """list of (description, negation)"""
    import z3
    from sx import core
    L = core.lift
    key, shape, clause = spec['model'], tuple(spec['shape']), spec['clause']
    n = len(shape)
    mu0 = lambda i, j: z3.Real(H.pname('mu', i, j))
    tau, beta, kappa = z3.Real('tau'), z3.Real('beta'), z3.Real('kappa')
    s2 = lambda i, j: z3.Real(H.pname('sg', i, j)) * z3.Real(H.pname('sg', i, j)) + tau * tau
    obs = []
    if clause == 'a':
        W = spec['ranks']
        first = [i for i in range(n) if W[i] == 0]
        last = [i for i in range(n) if W[i] == max(W)]
        if len(first) == 1:
            i = first[0]
            obs.append((f'team {i} alone in first place: no member\'s mu decreases', z3.Or(*[L(out[i][j][0]) < mu0(i, j) for j in range(shape[i])])))
        if len(last) == 1:
            i = last[0]
            obs.append((f'team {i} alone in last place: no member\'s mu increases', z3.Or(*[L(out[i][j][0]) > mu0(i, j) for j in range(shape[i])])))
        prop = []
        for i in range(n):
            for j, k in itertools.combinations(range(shape[i]), 2):
                prop.append((L(out[i][j][0]) - mu0(i, j)) * s2(i, k) != (L(out[i][k][0]) - mu0(i, k)) * s2(i, j))
        if prop:
            obs.append(('members move in proportion to their tau-inflated variance', z3.Or(*prop)))
        return obs
    if clause == 'b':
        bad_order, bad_prior = [], []
        for i in range(2):
            # team i: "win" means rank 0 for team 0; for team 1 the roles are exchanged
            w, l = ('win', 'loss') if i == 0 else ('loss', 'win')
            for j in range(shape[i]):
                a, d, b = L(out[w][i][j][0]), L(out['draw'][i][j][0]), L(out[l][i][j][0])
                bad_order += [b > d, d > a]
                bad_prior += [b > mu0(i, j), mu0(i, j) > a]
        obs.append(('loss <= draw <= win for every player', z3.Or(*bad_order)))
        obs.append(('loss <= prior <= win for every player', z3.Or(*bad_prior)))
        tot = [sum(mu0(i, j) for j in range(shape[i])) for i in range(2)]
        var = [sum(s2(i, j) for j in range(shape[i])) for i in range(2)]
        c2 = var[0] + var[1] + 2 * beta * beta
        if key == 'tmp':
            c2 = 4 * c2
        bad = []
        for i in range(2):
            o = 1 - i
            for j in range(shape[i]):
                slack = (s2(i, j) * kappa / c2) if key in H.TM else 0
                d = L(out['draw'][i][j][0]) - mu0(i, j)
                bad.append(z3.And(tot[i] > tot[o], d > slack))
                bad.append(z3.And(tot[i] < tot[o], d < -slack))
        obs.append(('a draw does not raise the stronger team nor lower the weaker one' + (' (beyond the draw-margin term)' if key in H.TM else ''), z3.Or(*bad)))
        return obs
    if clause == 'ident':
        W = spec['ranks']
        bad = []
        for a, b in itertools.permutations(range(n), 2):
            if W[a] < W[b]:
                for j in range(shape[a]):
                    bad.append(L(out[a][j][0]) < L(out[b][j][0]))
        obs.append(('identical teams end with mu ordered by finishing place', z3.Or(*bad)))
        return obs
    for (i, sw) in out['swaps']:
        bad = [L(sw[i][j][0]) < L(out['base'][i][j][0]) for j in range(shape[i])]
        obs.append((f'team {i} exchanging places with the team immediately above: mu not lower', z3.Or(*bad)))
    return obs


def run_job(spec, ctx):
    if spec['clause'] == 'lemma':
        return run_lemma(spec, ctx)
    import z3
    from sx import core
    core.install()
    key, shape = spec['model'], tuple(spec['shape'])
    if key in H.TM:
        _install_tm_lemmas(key)
    H.set_facts(shape)
    base = H.domain(shape)
    mk = H.sym_maker()
    names = H.sym_names(shape)
    for (kind, out), eng in core.iter_paths(lambda: _run(spec, mk), base, H.draw_fn(shape), opts={'deadline': ctx.deadline}):
        ctx.paths += 1
        if ctx.candidates:
            break
        if kind == 'exc':
            ctx.ob(f'path ends in {type(out).__name__}: {out}', 'unknown')
            ctx.add_engine(eng)
            continue
        if ctx.vacuity['checked'] == 0:
            first = list(H._flatten(out if not isinstance(out, dict) else list(out.values())[0]))[0]
            H.vacuity_check(ctx, eng, core.lift(first) == 12345)
        for note in eng.notes:
            if note[0] == 'lemma-precondition-open':
                ctx.ob(f'precondition t > 0 of lemma {note[1]} at a call site', 'unknown')
        for desc, neg in _obligations(spec, out, eng):
            r, m = eng.check_lemma(neg, timeout=20000)
            how = 'lemma abstraction'
            if r != 'unsat':
                r, m = eng.check(neg, timeout=90000)
                how = 'full term'
            sample = {'model': key, 'clause': spec['clause'], 'shape': list(shape), 'ranks': spec['ranks'], 'obligation': desc, 'decided_on': how}
            if r == 'sat':
                cands = [{'spec': spec, 'inputs': inp, 'desc': desc} for inp in H.witness_models(eng, neg, names, H.nice_pins(shape))]
                H.mark_last(cands)
                ctx.ob(desc, 'sat' if cands else 'unknown', cands, sample=sample)
            else:
                ctx.ob(f'{desc} [{how}]', r, sample=sample)
        ctx.add_engine(eng)


def replay(cand):
    if cand.get('clause') == 'lemma':
        import openskill.models.weng_lin.common as C
        inp = cand['inputs']
        xv, tv = inp['x'], inp['t']
        got = getattr(C, cand['fn'])(xv, tv)
        if cand['fn'] == 'v':
            bad = got < -1e-12 or got < (tv - xv) - 1e-9 * max(1.0, abs(tv - xv))
        else:
            bad = not (-tv - xv - 1e-9 * max(1.0, abs(xv)) <= got <= tv - xv + 1e-9 * max(1.0, abs(xv)))
        return {'violated': bool(bad), 'key': f'lemma:{cand["fn"]}', 'detail': f'C05 lemma: {cand["fn"]}({xv!r}, {tv!r}) = {got!r}'}
    spec, inp = cand['spec'], cand['inputs']
    key, shape, clause = spec['model'], tuple(spec['shape']), spec['clause']
    n = len(shape)
    mk = H.float_maker(inp)
    out = _run(spec, mk)
    mu0 = lambda i, j: inp[H.pname('mu', i, j)]
    s2 = lambda i, j: inp[H.pname('sg', i, j)] ** 2 + inp['tau'] ** 2
    tol = 1e-9 * inp['beta']
    probs = []
    if clause == 'a':
        W = spec['ranks']
        first = [i for i in range(n) if W[i] == 0]
        last = [i for i in range(n) if W[i] == max(W)]
        if len(first) == 1:
            i = first[0]
            probs += [f'sole winner ({i},{j}) mu {mu0(i, j)!r} -> {out[i][j][0]!r}' for j in range(shape[i]) if out[i][j][0] < mu0(i, j) - tol]
        if len(last) == 1:
            i = last[0]
            probs += [f'sole loser ({i},{j}) mu {mu0(i, j)!r} -> {out[i][j][0]!r}' for j in range(shape[i]) if out[i][j][0] > mu0(i, j) + tol]
        for i in range(n):
            for j, k in itertools.combinations(range(shape[i]), 2):
                a, b = (out[i][j][0] - mu0(i, j)) * s2(i, k), (out[i][k][0] - mu0(i, k)) * s2(i, j)
                if abs(a - b) > 1e-7 * max(abs(a), abs(b)) + 1e-12 * inp['beta'] ** 3:
                    probs.append(f'team {i}: members {j},{k} do not move in proportion to their variance ({a!r} vs {b!r})')
    elif clause == 'b':
        tot = [sum(mu0(i, j) for j in range(shape[i])) for i in range(2)]
        var = [sum(s2(i, j) for j in range(shape[i])) for i in range(2)]
        c2 = (var[0] + var[1] + 2 * inp['beta'] ** 2) * (4 if key == 'tmp' else 1)
        for i in range(2):
            w, l = ('win', 'loss') if i == 0 else ('loss', 'win')
            for j in range(shape[i]):
                a, d, b = out[w][i][j][0], out['draw'][i][j][0], out[l][i][j][0]
                if b > d + tol or d > a + tol:
                    probs.append(f'player ({i},{j}): loss {b!r}, draw {d!r}, win {a!r} not ordered')
                if b > mu0(i, j) + tol or mu0(i, j) > a + tol:
                    probs.append(f'player ({i},{j}): prior {mu0(i, j)!r} not between loss {b!r} and win {a!r}')
                slack = (s2(i, j) * inp['kappa'] / c2) if key in H.TM else 0.0
                dd = d - mu0(i, j)
                if tot[i] > tot[1 - i] and dd > slack * (1 + 1e-6) + tol:
                    probs.append(f'draw raises player ({i},{j}) of the stronger team by {dd!r}')
                if tot[i] < tot[1 - i] and dd < -slack * (1 + 1e-6) - tol:
                    probs.append(f'draw lowers player ({i},{j}) of the weaker team by {dd!r}')
    elif clause == 'ident':
        W = spec['ranks']
        for a, b in itertools.permutations(range(n), 2):
            if W[a] < W[b]:
                for j in range(shape[a]):
                    if out[a][j][0] < out[b][j][0] - tol:
                        probs.append(f'identical teams: better placed team {a} ends with mu {out[a][j][0]!r} < {out[b][j][0]!r} of team {b}')
    else:
        for (i, sw) in out['swaps']:
            for j in range(shape[i]):
                if sw[i][j][0] < out['base'][i][j][0] - tol:
                    probs.append(f'team {i} moving up one place lowers player ({i},{j}) from {out["base"][i][j][0]!r} to {sw[i][j][0]!r}')
    return {'violated': bool(probs), 'key': f'{clause}:{key}:{H.shape_str(shape)}:{H.ranks_str(spec["ranks"]) if spec["ranks"] else ""}',
            'detail': f'C05 {H.MODEL_NAMES[key]} clause {clause} shape={shape} ranks={spec["ranks"]} inputs={inp}: ' + '; '.join(probs[:3])}
