"""C14 -- stateless calls: results independent of call history, identity and interleaving."""
import itertools

from harness import common as H
from harness import c14_sched as SCHED

INFO = {
    'level': 'other',
    'explanation': (
        'Symbolic execution of the real rate()/predict_* (sx engine, mode R) with monitors. (i) The model is an instance of a harness-level '
        'subclass with a recording __setattr__; on every path of every call (per-call tau symbolic, limit_sigma in {None, True, False}) the '
        'write log must be empty (catches write-then-restore too) and model.__dict__ unchanged. (ii) History independence, two-run: a first call '
        'with arbitrary per-call options, then rate()/predict_*() on a symbolic game, against the same second call on a fresh model: result terms '
        'identical (syntactic, else z3). (iii) ids and names are opaque tokens that record any inspection (hash, eq, str, format, ordering); '
        'no inspection on any path, Rating.__hash__ never called, and the results on rebuilt ratings (fresh ids, no names, distinct objects) are '
        'identical terms. (iv) Thread interleavings: for pairs of calls on disjoint ratings through one shared model, every access of the real code to '
        'shared state (model attributes, mutable containers held by openskill classes / modules / default arguments / closures, lru_cache wrappers) is '
        'recorded while each call runs alone; the interleaving of the two traces is a vector of integer positions and z3 decides whether any total '
        'order consistent with both program orders lets a read observe a foreign write with another value than alone (unsat: all interleavings, '
        'any number of context switches at shared-access granularity, return the serial results). sat orders are forced on two real threads '
        '(every recorded access waits for its turn) and compared with the serial results; a deliberately racy harness-level subclass must be found '
        'and reproduced in every job (reachability twin). PYTHONHASHSEED is not varied: the solver-checked premise is that nothing hash-order '
        'dependent is executed (iii).'),
    'bounds': {
        'quick': 'five models; second call on shapes (1,1) and (2,1) [rate] / (1,1),(1,2,1) [predict_*]; first call concrete with tau in {None, 0, 0.37}, '
                 'limit_sigma in {None, True, False}; model-level limit_sigma in {False, True}; call sequences of length 2',
        'thorough': '+ rate on (1,1,1) with ties (model-level limit_sigma off), predict_win / predict_draw on 4 teams',
        'schedules': 'two threads, six pairs of calls (rate with per-call options / ranks / scores / tau=0, the three predictions) per model, concrete games; '
                     'all interleavings of the recorded shared accesses (z3 Int positions)',
    },
    'outside': ['PYTHONHASHSEED itself (not varied; see (iii)/(iv))', 'sequences longer than 2: covered by induction only because every call is shown to leave the model and every shared container unwritten (obligation in the schedule jobs); with a benign memo present they would be inconclusive',
                'three or more threads; preemption between two shared accesses that matters only through state the recorder does not see '
                '(re-bound module globals are detected by snapshot and then only tried on fixed interleavings; C-level state)'],
    'stubs': None,
    'axioms': ['T0/T1 (DESIGN 2.2)'],
    'assumptions': ['real-number semantics (mode R)', 'arithmetic guards assumed (C08)'],
}

FIRST_CALLS = [('rate', t, l) for t in (None, 0.0, 0.37) for l in (None, True, False)] + \
              [('predict_win', None, None), ('predict_draw', None, None), ('predict_rank', None, None)] + \
              [(who + ':' + op, None, None) for who in ('sibling', 'cousin')
               for op in ('rate', 'predict_win', 'predict_draw', 'predict_rank')] + \
              [(who + ':' + op, None, None) for who in ('self=', 'sibling=')
               for op in ('rate', 'predict_win', 'predict_draw', 'predict_rank')] + \
              [('samelist:' + op, None, None) for op in ('predict_win', 'predict_draw', 'predict_rank')]
# 'samelist:<op>': the earlier call saw the very same team list objects; their contents are replaced (squad[:] = new ratings) before
# the later call - anything remembered per list object (id(team), the list itself as a key) is stale by then
# 'sibling=:<op>' / 'self=:<op>': as above, and the later call sees a CONCRETE game with exactly the (mu, sigma) values of the earlier
# one on fresh rating objects - the only way to hit a memo keyed by rating values (a symbolic value is unhashable: such a path ends in
# TypeError and is counted inconclusive)
# 'sibling:<op>': the earlier call goes through ANOTHER instance of the same class with a different configuration
# (beta x 3, other kappa/tau) - exposes class-level or module-level caches keyed too coarsely;
# 'cousin:<op>': through an instance of a different model class.
SECOND_OPS = ['rate', 'predict_win', 'predict_draw', 'predict_rank']
# every 'rate' history is run twice: outcomes given as ranks, and as scores (both calls), see run_hist


def jobs(tier):
    out = []
    for key in H.ALL:
        tm = key in H.TM
        for ls0 in (False, True):
            for op in SECOND_OPS:
                shapes = [(1, 1), (2, 1)] if op == 'rate' else [(1, 1), (1, 2, 1)]
                if (tm or ls0) and op == 'rate':
                    shapes = [(1, 1)]  # model-level limit_sigma: 2 clamp forks per player and run
                if tier == 'thorough':
                    shapes = shapes + ([(1, 1, 1)] if (op == 'rate' and not tm and not ls0) else []) + ([(1, 1, 2, 1)] if op in ('predict_win', 'predict_draw') else [])
                for shape in shapes:
                    out.append({'name': f'{key}-hist-{op}-{H.shape_str(shape)}-ls{int(ls0)}', 'mode': 'hist', 'model': key,
                                'op': op, 'shape': list(shape), 'ls0': ls0, 'budget': 600, 'cost': 100 if tm else 30})
        for op in SECOND_OPS:
            shapes = [(1, 1), (2, 1)] if op == 'rate' else [(1, 1), (1, 2, 1)]
            if tm and op == 'rate':
                shapes = [(1, 1)]
            for shape in shapes:
                out.append({'name': f'{key}-mon-{op}-{H.shape_str(shape)}', 'mode': 'mon', 'model': key, 'op': op,
                            'shape': list(shape), 'budget': 600, 'cost': 100 if tm else 30})
    return out + SCHED.jobs(tier)


class Opaque:
    """stands for a rating id / name: any inspection is recorded"""
    __slots__ = ('label', 'log')

    def __init__(self, label, log):
        self.label = label
        self.log = log

    def _hit(self, what):
        self.log.append((self.label, what))

    def __hash__(self):
        self._hit('hash')
        return 0

    def __eq__(self, o):
        self._hit('eq')
        return self is o

    def __ne__(self, o):
        self._hit('ne')
        return self is not o

    def __lt__(self, o):
        self._hit('lt')
        return False

    __le__ = __gt__ = __ge__ = __lt__

    def __str__(self):
        self._hit('str')
        return 'opaque'

    def __format__(self, s):
        self._hit('format')
        return 'opaque'

    def __bool__(self):
        self._hit('bool')
        return True

    def __len__(self):
        self._hit('len')
        return 1

    def __deepcopy__(self, memo):
        return self

    def __repr__(self):
        return f'<opaque {self.label}>'


def monitored(Model):
    log = []

    class Mon(Model):
        def __setattr__(self, k, v):
            if self.__dict__.get('_armed'):
                log.append(k)
            object.__setattr__(self, k, v)

        def __delattr__(self, k):
            log.append('del ' + k)
            object.__delattr__(self, k)
    Mon.__name__ = Model.__name__
    return Mon, log


def _call(m, op, teams, ranks=None, **kw):
    if op == 'rate':
        out = m.rate(teams, ranks=ranks, **kw) if ranks is not None else m.rate(teams, **kw)
        return [[(p.mu, p.sigma) for p in t] for t in out]
    r = getattr(m, op)(teams)
    if op == 'predict_rank':
        return [list(x) for x in r]
    return r


def _first_game(m):
    return [[m.rating(27.5, 6.1), m.rating(22.0, 4.0)], [m.rating(24.0, 7.7)], [m.rating(31.0, 2.2)]]


def _ranks_for(shape, tie):
    n = len(shape)
    return [0] * n if tie else list(range(n - 1, -1, -1))


def _mk_teams(m, shape, mk, ids_log=None):
    teams = [[m.rating(mk(H.pname('mu', i, j)), mk(H.pname('sg', i, j)), name=f'n{i}{j}') for j in range(n)] for i, n in enumerate(shape)]
    if ids_log is not None:
        for i, t in enumerate(teams):
            for j, p in enumerate(t):
                p.id = Opaque(f'id{i}{j}', ids_log)
                p.name = Opaque(f'name{i}{j}', ids_log)
    return teams


def pristine():
    """drop every openskill module and import the package afresh (new class objects, new module globals),
    so that class-level / module-level state left by earlier calls or earlier paths cannot leak into a baseline"""
    import sys as _sys
    from sx import core
    for name in [n for n in _sys.modules if n == 'openskill' or n.startswith('openskill.')]:
        del _sys.modules[name]
    core.install()


def run_hist(key, op, shape, ls0, first, tie, mk):
    """(result of second call after `first`, result of the same call on a fresh model in a pristine import)"""
    pristine()
    Model = H.model_class(key)
    # the model configuration is concrete here (library defaults), so that the first call runs natively;
    # the second game is symbolic.  Symbolic configurations are covered by the monitor jobs.
    kw = dict(beta=25.0 / 6.0, kappa=0.0001, tau=25.0 / 300.0, limit_sigma=ls0)
    m = Model(**kw)
    fop, ft, fl = first
    m1 = m
    same_values = False
    if ':' in fop:
        who, fop = fop.split(':')
        same_values = who.endswith('=')
        who = who.rstrip('=')
        other_cfg = dict(beta=3 * 25.0 / 6.0, kappa=0.001, tau=0.5, limit_sigma=not ls0)
        if who in ('self', 'samelist'):
            pass
        elif who == 'sibling':
            m1 = Model(**other_cfg)
        else:
            m1 = H.model_class([k for k in H.ALL if k != key][0 if key != 'pl' else 1])(**other_cfg)
    g1 = _first_game(m1)
    if shape == (1, 1) or sum(shape) == sum(len(t) for t in g1):
        pass
    # the earlier call also sees a game with the same number of players as the later one (caches keyed by counts)
    g1b = [[m1.rating(26.0 + i + j, 5.0 + i) for j in range(n)] for i, n in enumerate(shape)]
    # one outcome list object handed to an earlier call and to the later one (a placements list re-used between rounds):
    # a call that re-orders or rewrites the list it was given changes what the later call sees
    shared = _ranks_for(shape, tie) if op == 'rate' else None
    if fop == 'rate':
        m1.rate(g1, ranks=[1, 0, 1], tau=ft, limit_sigma=fl)
        m1.rate(g1b, ranks=list(range(len(shape))), tau=ft, limit_sigma=fl)
        if shared is not None:
            m1.rate([[m1.rating(24.0 + 2 * i + j, 4.0 + i) for j in range(n)] for i, n in enumerate(shape)], ranks=shared, tau=ft, limit_sigma=fl)
        # the score encoding has its own conversion path: exercise it in the earlier calls too
        m1.rate(_first_game(m1), scores=[3, 7, 3], tau=ft, limit_sigma=fl)
        m1.rate([[m1.rating(26.0 + i + j, 5.0 + i) for j in range(n)] for i, n in enumerate(shape)],
                scores=[float(i) for i in range(len(shape))], tau=ft, limit_sigma=fl)
    else:
        getattr(m1, fop)(g1)
        getattr(m1, fop)(g1b)
    if same_values:
        vals = {}
        for i, n in enumerate(shape):
            for j in range(n):
                vals[H.pname('mu', i, j)] = 26.0 + i + j
                vals[H.pname('sg', i, j)] = 5.0 + i
        mk = H.float_maker(vals)
        if fop != 'rate':
            getattr(m1, fop)([[m1.rating(26.0 + i + j, 5.0 + i) for j in range(n)] for i, n in enumerate(shape)])
    second = _mk_teams(m, shape, mk)
    if ':' in first[0] and first[0].startswith('samelist'):
        held = [[m.rating(22.0 + 2 * i - j, 3.0 + i + j) for j in range(n)] for i, n in enumerate(shape)]
        getattr(m, fop)(held)
        for old, new in zip(held, second):
            old[:] = new
        second = held
    a = _call(m, op, second, (shared if (shared is not None and fop == 'rate') else _ranks_for(shape, tie)) if op == 'rate' else None)
    a2 = None
    if op == 'rate':
        out = m.rate(_mk_teams(m, shape, mk), scores=[-r for r in _ranks_for(shape, tie)])
        a2 = [[(p.mu, p.sigma) for p in t] for t in out]
    pristine()
    m2 = H.model_class(key)(**kw)
    b = _call(m2, op, _mk_teams(m2, shape, mk), _ranks_for(shape, tie) if op == 'rate' else None)
    if op == 'rate':
        # as scores on the fresh model: must equal the ranks result there and the scores result after the history
        return [a, a2], [b, b]
    return a, b


REPLAY_GAMMA = [None]   # replays of the 'ufgamma' variant: the concrete value the callback returns


def run_mon(key, op, shape, variant, tie, mk):
    """(write log, dict unchanged?, opaque log, hash calls, result, result on rebuilt ratings)"""
    Model = H.model_class(key)
    Rating = H.rating_class(key)
    Mon, wlog = monitored(Model)
    kw = dict(beta=mk('beta'), kappa=mk('kappa'), tau=mk('tau'))
    if variant and len(variant) > 2 and variant[2] == 'ufgamma':
        # a custom gamma callback whose value is unconstrained (any sign): a model that reacts to an odd value by
        # re-configuring itself writes an attribute on that path
        from sx import core as _core

        def G(c, k, mu, ss, team, rank):
            if REPLAY_GAMMA[0] is not None:
                return REPLAY_GAMMA[0]
            return _core.uf_app_n('gamma', [c, mu, ss], consts=(k, rank, len(team)), rf=_core.TOP,
                                  shadow=lambda c_, mu_, ss_: 0.3 + 0.1 * abs(float(mu_)) % 1.0)
        kw['gamma'] = G
        variant = variant[:2]
    m = Mon(**kw)
    object.__setattr__(m, '_armed', True)
    d0 = {k: v for k, v in m.__dict__.items() if k != '_armed'}
    ids_log = []
    hash_calls = []
    orig_hash = Rating.__hash__
    Rating.__hash__ = lambda self: (hash_calls.append(1), 0)[1]
    try:
        teams = _mk_teams(m, shape, mk, ids_log)
        call_kw = {}
        if op == 'rate':
            t, l = variant
            if t is not None:
                call_kw['tau'] = mk('t1') if t == 'sym' else t
            if l is not None:
                call_kw['limit_sigma'] = l
        a = _call(m, op, teams, _ranks_for(shape, tie) if op == 'rate' else None, **call_kw)
        nhash = len(hash_calls)
        d1 = {k: v for k, v in m.__dict__.items() if k != '_armed'}
        same_dict = d0.keys() == d1.keys() and all(d0[k] is d1[k] for k in d0)
        m2 = Model(**kw)
        teams2 = [[m2.rating(mk(H.pname('mu', i, j)), mk(H.pname('sg', i, j))) for j in range(n)] for i, n in enumerate(shape)]
        # (the recording __hash__ stays installed: a symbolic value is unhashable, the run on rebuilt ratings must not die of it)
        b = _call(m2, op, teams2, _ranks_for(shape, tie) if op == 'rate' else None, **call_kw)
    finally:
        Rating.__hash__ = orig_hash
    hash_calls[:] = [1] * nhash
    return list(wlog), same_dict, list(ids_log), len(hash_calls), a, b


def _flat_terms(x):
    from sx import core
    return [core.lift(v) for v in H._flatten(x)]


def _diffs(a, b):
    import z3
    from sx import core
    fa, fb = list(H._flatten(a)), list(H._flatten(b))
    if len(fa) != len(fb):
        return None
    out = []
    for x, y in zip(fa, fb):
        if not isinstance(x, core.Sym) and not isinstance(y, core.Sym):
            if x != y:
                out.append(z3.BoolVal(True))
            continue
        tx, ty = core.lift(x), core.lift(y)
        if tx.eq(ty) or core.is_zero(core.som(tx - ty)):
            continue
        out.append(tx != ty)
    return out


def _draw(shape, fixed=False):
    base = H.draw_fn(shape)

    def draw(rng):
        e = base(rng)
        if fixed:
            b = 25.0 / 6.0
            k = b / e['beta']
            for n in list(e):
                if n.startswith('mu_') or n.startswith('sg_'):
                    e[n] *= k
            e.update(beta=b, kappa=0.0001, tau=25.0 / 300.0)
        e['t1'] = rng.choice([0.0, e['beta'] / 50, e['beta']])
        return e
    return draw


def _decide(ctx, eng, desc, a, b, names, cand_base, sample=None):
    import z3
    d = _diffs(a, b)
    if d is None:
        ctx.ob(desc + ' (different result structure)', 'sat', dict(cand_base, inputs=_any_inputs(eng, names)))
        return
    if not d:
        ctx.ob(desc + ' (syntactic identity)', 'syntactic', sample=sample)
        return
    neg = z3.Or(*d)
    r, m = eng.check(neg, timeout=60000)
    if r == 'sat':
        cands = [dict(cand_base, inputs=inp) for inp in H.witness_models(eng, neg, names, H.nice_pins(()))]
        H.mark_last(cands)
        ctx.ob(desc, 'sat' if cands else 'unknown', cands)
    else:
        ctx.ob(desc, r, sample=sample)


def _any_inputs(eng, names):
    from sx.core import model_inputs
    r, m = eng.check(timeout=20000)
    if r == 'sat':
        return model_inputs(m, names)
    for k, al in enumerate(eng.alive):
        if al:
            return {n: eng.env[k][n] for n in names if n in eng.env[k]}
    return None


def run_job(spec, ctx):
    import z3
    if spec['mode'] == 'sched':
        return SCHED.run_sched(spec, ctx)
    from sx import core
    core.install()
    key, op, shape = spec['model'], spec['op'], tuple(spec['shape'])
    H.set_facts(shape)
    core.INPUT_FACTS['t1'] = core.F(0.0, False)
    base = H.domain(shape) + [z3.Real('t1') >= 0, z3.Real('t1') <= 10 * z3.Real('beta')]
    mk = H.sym_maker()
    names = H.sym_names(shape) + ['t1']
    opts = {'deadline': ctx.deadline}
    ties = (False, True) if op == 'rate' and key not in H.TM else (False,)
    if spec['mode'] == 'hist':
        base = base + [z3.Real('beta') == z3.RealVal('25/6'), z3.Real('kappa') == z3.RealVal('1/10000'),
                       z3.Real('tau') == z3.RealVal('1/12')]
        for first, tie in itertools.product(FIRST_CALLS, ties):
            if ctx.candidates:
                break
            stats = {}
            for (kind, out), eng in core.iter_paths(lambda: run_hist(key, op, shape, spec['ls0'], first, tie, mk), base,
                                                    _draw(shape, True), opts=opts, stats=stats):
                ctx.paths += 1
                if kind == 'exc':
                    ctx.ob(f'first={first}: path ends in {type(out).__name__}: {out}', 'unknown')
                else:
                    a, b = out
                    if ctx.vacuity['checked'] == 0:
                        H.vacuity_check(ctx, eng, _flat_terms(a)[0] == 12345)
                    _decide(ctx, eng, f'{op} after {first} == {op} on a fresh model', a, b, names,
                            {'mode': 'hist', 'model': key, 'op': op, 'shape': list(shape), 'ls0': spec['ls0'],
                             'first': list(first), 'tie': tie},
                            sample={'model': key, 'first_call': list(first), 'second_call': op, 'shape': list(shape)})
                ctx.add_engine(eng)
                if ctx.candidates:
                    break
        return
    variants = [(t, l) for t in (None, 0.0, 'sym') for l in (None, True, False)] if op == 'rate' else [(None, None)]
    if op == 'rate' and key not in H.TM and shape == (1, 1):
        variants.append((None, None, 'ufgamma'))
    for variant, tie in itertools.product(variants, ties):
        if ctx.candidates:
            break
        for (kind, out), eng in core.iter_paths(lambda: run_mon(key, op, shape, variant, tie, mk), base, _draw(shape), opts=opts):
            ctx.paths += 1
            if kind == 'exc':
                ctx.ob(f'variant={variant}: path ends in {type(out).__name__}: {out}', 'unknown')
                ctx.add_engine(eng)
                continue
            wlog, same_dict, ids_log, nhash, a, b = out
            cb = {'mode': 'mon', 'model': key, 'op': op, 'shape': list(shape), 'variant': list(variant), 'tie': tie}
            if ctx.vacuity['checked'] == 0:
                H.vacuity_check(ctx, eng, _flat_terms(a)[0] == 12345)
            ok = not wlog and same_dict
            ctx.ob(f'{op}{variant}: no attribute of the model is written' + ('' if ok else f' (written: {sorted(set(wlog))})'),
                   'unsat' if ok else 'sat', None if ok else dict(cb, inputs=_any_inputs(eng, names), what='write'),
                   sample={'model': key, 'call': op, 'per_call': list(variant), 'write_log': wlog})
            ok = not ids_log and nhash == 0
            ctx.ob(f'{op}{variant}: ids/names never inspected, Rating.__hash__ never called' + ('' if ok else f' ({ids_log[:3]}, hash calls {nhash})'),
                   'unsat' if ok else 'sat', None if ok else dict(cb, inputs=_any_inputs(eng, names), what='inspect'))
            _decide(ctx, eng, f'{op}{variant}: same numbers on rebuilt ratings (fresh ids, no names)', a, b, names, dict(cb, what='rebuilt'))
            ctx.add_engine(eng)
            if ctx.candidates:
                break


def _id_dependence(key, op, shape, variant, tie, inp):
    """same values, different ids/names: distinct (fresh) vs all equal, on the given inputs and on inputs with every player's
    values made equal (a set or dict keyed by ratings collapses equal-id equal-value objects).  Returns a description or None."""
    Model = H.model_class(key)
    eq = dict(inp)
    for i, n in enumerate(shape):
        for j in range(n):
            eq[H.pname('mu', i, j)] = inp[H.pname('mu', 0, 0)]
            eq[H.pname('sg', i, j)] = inp[H.pname('sg', 0, 0)]
    b_ = inp['beta']
    mixed = dict(inp)
    for i, n in enumerate(shape):
        for j in range(n):
            mixed[H.pname('sg', i, j)] = (0.01 if (i + j) % 2 == 0 else 2.0) * b_
    trials = [(inp, None), (eq, None)]
    for tau_ in (0.5 * b_, 2.0 * b_):
        for base_ in (inp, eq, mixed):
            for ls_ in (None, True):
                trials.append((dict(base_, tau=tau_), ls_))
    for vals, force_ls in trials:
        outs = []
        for same_ids in (False, True):
            m = Model(beta=vals['beta'], kappa=vals['kappa'], tau=vals['tau'])
            teams = [[m.rating(vals[H.pname('mu', i, j)], vals[H.pname('sg', i, j)]) for j in range(n)] for i, n in enumerate(shape)]
            if same_ids:
                for t in teams:
                    for p in t:
                        p.id, p.name = 'one-id', 'one-name'
            kw = {}
            if op == 'rate' and len(variant) >= 2:
                if variant[0] is not None:
                    kw['tau'] = vals.get('t1', 0.0) if variant[0] == 'sym' else variant[0]
                if variant[1] is not None:
                    kw['limit_sigma'] = variant[1]
                if force_ls:
                    kw['limit_sigma'] = True
            try:
                outs.append(list(H._flatten(_call(m, op, teams, _ranks_for(shape, tie) if op == 'rate' else None, **kw))))
            except Exception as e:  # noqa: BLE001
                outs.append(repr(e))
        if outs[0] != outs[1]:
            return f'with values {[vals[n_] for n_ in sorted(vals) if n_.startswith(("mu_", "sg_"))]}, tau={vals["tau"]}' + (', limit_sigma=True' if force_ls else '') + f': distinct ids give {outs[0]}, equal ids give {outs[1]}'
    return None


def replay(cand):
    if cand.get('mode') == 'sched':
        return SCHED.replay_sched(cand)
    key, op, shape = cand['model'], cand['op'], tuple(cand['shape'])
    inp = cand.get('inputs') or {}
    if not inp:
        inp = {'beta': 25 / 6, 'kappa': 1e-4, 'tau': 1 / 12, 't1': 0.2}
        for i, n in enumerate(shape):
            for j in range(n):
                inp[H.pname('mu', i, j)] = 25.0 + i - j
                inp[H.pname('sg', i, j)] = 8.0 - i
    mk = H.float_maker(inp)
    if cand['mode'] == 'hist':
        inp = dict(inp, beta=25.0 / 6.0, kappa=0.0001, tau=25.0 / 300.0)
        mk = H.float_maker(inp)
        a, b = run_hist(key, op, shape, cand['ls0'], tuple(cand['first']), cand['tie'], mk)
        fa, fb = list(H._flatten(a)), list(H._flatten(b))
        bad = len(fa) != len(fb) or any(x != y for x, y in zip(fa, fb))
        return {'violated': bool(bad), 'key': f'{key}:hist:first={cand["first"]}:second={op}:ls0={cand["ls0"]}',
                'detail': f'C14 {H.MODEL_NAMES[key]}(limit_sigma={cand["ls0"]}): {op} on shape {shape} after first call {cand["first"]} '
                          f'returns {a} but {b} on a fresh model; inputs={inp}'}
    variant = tuple(cand['variant'])
    gvals = [-0.5, 0.0, 3.0, 1e12, -1e-9] if len(variant) > 2 else [None]
    for gv in gvals:
        REPLAY_GAMMA[0] = gv
        wlog, same_dict, ids_log, nhash, a, b = run_mon(key, op, shape, variant, cand['tie'], mk)
        if wlog or not same_dict or ids_log or nhash:
            break
    fa, fb = list(H._flatten(a)), list(H._flatten(b))
    what = cand.get('what')
    if what == 'write':
        bad = bool(wlog) or not same_dict
        detail = f'model attributes written during the call: {sorted(set(wlog))}'
        key_extra = 'write:' + ','.join(sorted(set(wlog)))
    elif what == 'inspect':
        # consulting ids / names / hashes is only the premise; the property is about the NUMBERS: show that they move with the ids
        shown = _id_dependence(key, op, shape, variant, cand['tie'], inp)
        bad = (bool(ids_log) or nhash > 0) and shown is not None
        detail = f'ids/names inspected: {ids_log[:4]}, Rating.__hash__ calls: {nhash}; ' + (shown or 'no dependence of the numbers on ids/names could be shown')
        key_extra = 'inspect'
    else:
        bad = len(fa) != len(fb) or any(x != y for x, y in zip(fa, fb))
        detail = f'result {a} differs from result on rebuilt ratings {b}'
        key_extra = 'rebuilt'
    return {'violated': bool(bad), 'key': f'{key}:mon:{op}:per_call={list(variant)}:{key_extra}',
            'detail': f'C14 {H.MODEL_NAMES[key]}.{op} shape={shape} per-call (tau, limit_sigma)={variant}: {detail}; inputs={inp}'}
