"""C16 -- results do not depend on the unit or origin of the skill scale."""
from harness import common as H
from harness import predict as PR

INFO = {
    'level': 'other',
    'explanation': (
        'Two-run symbolic execution in one path (sx engine, mode R) with relational hints, each a true identity applied only when its side '
        'condition is established syntactically. (scale) factor k in [1e-3, 1e3] symbolic; every mu, sigma and the model\'s mu, sigma, beta, tau '
        'multiplied by k; hint sqrt(k^2 a) = k sqrt(a): rate() of Plackett-Luce and both Bradley-Terry models returns k times the original '
        'posterior, and the three predictions of all five models are unchanged. (shift) constant s symbolic, all teams of equal size; hint '
        'exp(a) = exp(a2) exp(a - a2) against the aligned application of the first run: every posterior mu is shifted by s, sigmas and all '
        'predictions unchanged, all five models. z3 decides the disequalities; sat models are replayed in floats at 1e-9 relative.'),
    'bounds': {
        'quick': 'scale/rate: PL, BT-full, BT-part x (1,1),(2,1) x 3 orders, (1,1,1) x 4 orders; shift/rate: five models x (1,1) x 3 orders [TM: strict], '
                 '(2,2),(1,1,1) for PL/BT; predictions: five models x (1,1),(2,1)/(2,2),(1,1,1)',
        'thorough': '+ (1,1,1) all 13 orders, (2,2) scale, (1,1,1,1) strict; TM shift with ties',
    },
    'outside': ['IEEE rounding', 'larger games', 'scaling of rate() under Thurstone-Mosteller (not claimed by the property: kappa is dimensional)'],
    'stubs': None,
    'axioms': ['T0/T1', 'hints: sqrt(k^2 a) = k sqrt(a) for k > 0; exp(a) = exp(a2) exp(a - a2)'],
    'assumptions': ['real-number semantics (mode R)'],
}


def jobs(tier):
    out = []

    def add(kind, key, shape, ranks=None, op='rate', budget=600, cost=20):
        out.append({'name': f'{kind}-{key}-{op}-{H.shape_str(shape)}' + (('-' + H.ranks_str(ranks)) if ranks is not None else ''),
                    'kind': kind, 'model': key, 'shape': list(shape), 'ranks': list(ranks) if ranks is not None else None, 'op': op,
                    'budget': budget, 'cost': cost})
    for key in H.BT_PL:
        for shape in [(1, 1), (2, 1)]:
            for W in H.weak_orders(2):
                add('scale', key, shape, W)
        for W in ([(0, 1, 2), (1, 0, 1), (0, 0, 0), (2, 0, 1)] if tier == 'quick' else H.weak_orders(3)):
            add('scale', key, (1, 1, 1), W, cost=60)
        if tier == 'thorough':
            add('scale', key, (2, 2), (0, 1), cost=100, budget=1800)
            add('scale', key, (1, 1, 1, 1), (0, 1, 2, 3), cost=300, budget=2400)
    for key in H.ALL:
        tm = key in H.TM
        for W in H.weak_orders(2):
            if tm and W[0] == W[1] and tier == 'quick':
                continue
            add('shift', key, (1, 1), W, cost=100 if tm else 20, budget=900 if tm else 600)
        if not tm:
            add('shift', key, (2, 2), (1, 0), cost=60)
            for W in ([(0, 1, 2), (1, 0, 1)] if tier == 'quick' else H.weak_orders(3)):
                add('shift', key, (1, 1, 1), W, cost=60)
        for op in PR.OPS:
            for shape in [(1, 1), (2, 1), (1, 1, 1)]:
                add('scale', key, shape, None, op=op, cost=10)
            for shape in [(1, 1), (2, 2), (1, 1, 1)]:
                add('shift', key, shape, None, op=op, cost=10)
    return out


def _run(spec, mk, state=None):
    from sx import core
    key, shape, kind, op = spec['model'], tuple(spec['shape']), spec['kind'], spec['op']
    Model = H.model_class(key)
    ranks = spec['ranks']
    if state is not None:
        state.clear()
        state.update(mark=None, j=0)

    def one(f_mu, f_sig, cfgscale):
        kw = dict(mu=cfgscale(mk('m_mu')), sigma=cfgscale(mk('m_sg')), beta=cfgscale(mk('beta')), tau=cfgscale(mk('tau')), kappa=mk('kappa'))
        m = Model(**kw)
        teams = [[m.rating(f_mu(mk(H.pname('mu', i, j))), f_sig(mk(H.pname('sg', i, j)))) for j in range(n)] for i, n in enumerate(shape)]
        if op == 'rate':
            out = m.rate(teams, ranks=list(ranks))
            return [[(p.mu, p.sigma) for p in t] for t in out]
        return PR.call(m, op, teams)
    a = one(lambda x: x, lambda x: x, lambda x: x)
    if state is not None:
        state['mark'] = len(core.ENG.apps.get('exp', []))
    if kind == 'scale':
        k = mk('k')
        b = one(lambda x: k * x, lambda x: k * x, lambda x: k * x)
    else:
        s = mk('s')
        b = one(lambda x: x + s, lambda x: x, lambda x: x)
    return a, b


def _expected(spec, a, mk):
    """what run B must equal, built from run A"""
    kind, op = spec['kind'], spec['op']
    if op != 'rate':
        return a
    if kind == 'scale':
        k = mk('k')
        return [[(k * m_, k * s_) for (m_, s_) in t] for t in a]
    s = mk('s')
    return [[(m_ + s, s_) for (m_, s_) in t] for t in a]


def _draw(shape):
    base = H.draw_fn(shape)

    def draw(rng):
        e = base(rng)
        e['k'] = rng.choice([1e-3, 0.5, 2.0, 1e3])
        e['s'] = e['beta'] * rng.uniform(-5, 5)
        e['m_mu'] = 6 * e['beta']
        e['m_sg'] = 2 * e['beta']
        return e
    return draw


def run_job(spec, ctx):
    import z3
    from sx import core
    core.install()
    shape = tuple(spec['shape'])
    H.set_facts(shape, sigma_zero_ok=(spec['op'] != 'rate'))
    core.INPUT_FACTS['k'] = core.F(0.001, False, 1000.0, False)
    k, s, beta = z3.Real('k'), z3.Real('s'), z3.Real('beta')
    base = H.domain(shape) + [k * 1000 >= 1, k <= 1000, s >= -20 * beta, s <= 20 * beta, z3.Real('m_sg') > 0]
    mk = H.sym_maker()
    names = H.sym_names(shape) + ['k', 's', 'm_mu', 'm_sg']
    state = {}
    hints = [core.hint_sqrt_scale('k')] if spec['kind'] == 'scale' else [core.hint_exp_aligned(state)]
    for (kind, out), eng in core.iter_paths(lambda: _run(spec, mk, state), base, _draw(shape),
                                            opts={'deadline': ctx.deadline, 'hints': hints, 'cong_timeout': 4000}):
        ctx.paths += 1
        if ctx.candidates:
            break
        if kind == 'exc':
            ctx.ob(f'path ends in {type(out).__name__}: {out}', 'unknown')
            ctx.add_engine(eng)
            continue
        a, b = out
        H.validate_shadows(ctx, eng, [a, b], lambda env: list(_run(spec, H.float_maker(env))))
        if ctx.vacuity['checked'] == 0:
            H.vacuity_check(ctx, eng, core.lift(list(H._flatten(a))[-1]) == 12345)
        want = _expected(spec, a, mk)
        fa, fb = list(H._flatten(want)), list(H._flatten(b))
        diffs = []
        struct_bad = len(fa) != len(fb)
        for x, y in zip(fa, fb):
            if isinstance(x, core.Sym) or isinstance(y, core.Sym):
                d = PR.terms_equal(x, y)
                if d is not None:
                    diffs.append(d)
            elif x != y:
                struct_bad = True
        what = {'scale': 'scaled by k', 'shift': 'shifted by s'}[spec['kind']]
        desc = f'{spec["op"]} on the game {what} == ' + ('original' if spec['op'] != 'rate' else f'original {what}')
        sample = {'model': spec['model'], 'kind': spec['kind'], 'op': spec['op'], 'shape': list(shape), 'ranks': spec['ranks']}
        if struct_bad:
            ctx.ob(desc + ' (ranks/structure differ)', 'sat', [{'spec': spec, 'inputs': {n: eng.env[k_][n] for n in names}} for k_, al in enumerate(eng.alive) if al][:1] or None)
        elif not diffs:
            ctx.ob(desc + ' (syntactic identity)', 'syntactic', sample=sample)
        else:
            neg = z3.Or(*diffs)
            r, m = eng.check(neg, timeout=90000)
            if r == 'sat':
                cands = [{'spec': spec, 'inputs': inp} for inp in H.witness_models(eng, neg, names, H.nice_pins(shape))]
                H.mark_last(cands)
                ctx.ob(desc, 'sat' if cands else 'unknown', cands, sample=sample)
            else:
                ctx.ob(desc, r, sample=sample)
        ctx.add_engine(eng)


def replay(cand):
    spec, inp = cand['spec'], dict(cand['inputs'])
    inp.setdefault('m_mu', 25.0)
    inp.setdefault('m_sg', 8.0)
    inp.setdefault('k', 2.0)
    inp.setdefault('s', 1.0)
    mk = H.float_maker(inp)
    a, b = _run(spec, mk)
    want = _expected(spec, a, mk)
    fa, fb = list(H._flatten(want)), list(H._flatten(b))
    worst = 0.0
    bad = len(fa) != len(fb)
    scale = max(abs(inp['beta']) * (inp['k'] if spec['kind'] == 'scale' else 1.0), 1e-300)
    for x, y in zip(fa, fb):
        if isinstance(x, float) or isinstance(y, float):
            worst = max(worst, abs(x - y) / max(abs(x), abs(y), scale if spec['op'] == 'rate' else 1.0))
        elif x != y:
            bad = True
    return {'violated': bool(bad or worst > 1e-9), 'key': f'{spec["kind"]}:{spec["model"]}:{spec["op"]}:{H.shape_str(spec["shape"])}',
            'detail': f'C16 {spec["kind"]} {H.MODEL_NAMES[spec["model"]]}.{spec["op"]} shape={spec["shape"]} ranks={spec["ranks"]} inputs={inp}: '
                      f'expected {want}, got {b} (worst relative deviation {worst:.3g})'}
