"""Reference update rules, written from Weng & Lin (JMLR 2011), Algorithms 1-4,
on team aggregates, with the extensions the library documents:

  * prior variance inflated by tau:           s~_j^2 = sigma_j^2 + tau^2
  * team skill = sum of members:               mu_i = sum_j mu_ij, var_i = sum_j s~_ij^2
  * member share proportional to own variance: s~_ij^2 / var_i
  * variance factor floored at kappa:          s'_ij = s~_ij * sqrt(max(1 - share*Delta_i, kappa))
  * gamma callback (c or c_iq, k, mu_i, var_i, team, rank); default sqrt(var_i)/c
  * limit_sigma:                               sigma' = min(sigma', sigma_prior)
  * V, W, V~, W~ are the paper's definitions with the documented guards
    (Gaussian mass below machine epsilon / 1e-5 => asymptotic form)
  * Thurstone-Mosteller partial pairing uses c_iq = 2*sqrt(var_i+var_q+2 beta^2)
    (the library's own definition of that model, see DESIGN.md section 3)

The functions are generic over the number type: `P` supplies sqrt/exp/cdf/pdf/
max so the same text runs on floats (replays, mpmath) and on sx proxies.
p_iq is written in the logistic form 1/(1+e^{(mu_q-mu_i)/c}), which is the
paper's e^{mu_i/c}/(e^{mu_i/c}+e^{mu_q/c}) divided through by e^{mu_i/c}.
"""
import math
import sys
from statistics import NormalDist

EPS = sys.float_info.epsilon  # 2.220446049250313e-16, the documented guard


class FloatPrims:
    _n = NormalDist()
    sqrt = staticmethod(math.sqrt)
    exp = staticmethod(math.exp)
    max = staticmethod(max)

    @classmethod
    def cdf(cls, x):
        return 0.5 * math.erfc(-x / math.sqrt(2.0))

    @classmethod
    def pdf(cls, x):
        return cls._n.pdf(x)


def competition_ranks(W):
    """rank passed to gamma: index, in the rank-sorted order, of the first team of the tie group"""
    order = sorted(range(len(W)), key=lambda i: W[i])  # stable
    out = [0] * len(W)
    s = 0
    for pos, i in enumerate(order):
        if pos > 0 and W[order[pos - 1]] < W[i]:
            s = pos
        out[i] = s
    return out


# ---- truncated Gaussian corrections (paper section 3.4 / 3.5, with the library's documented guards)
def V(P, x, t):
    d = P.cdf(x - t)
    if d < EPS:
        return -(x - t)
    return P.pdf(x - t) / d


def W_(P, x, t):
    d = P.cdf(x - t)
    if d < EPS:
        return 1 if x < 0 else 0
    vv = V(P, x, t)
    return vv * (vv + (x - t))


def Vt(P, x, t):
    ax = abs(x)
    b = P.cdf(t - ax) - P.cdf(-t - ax)
    if b < 1e-5:
        return (-x - t) if x < 0 else (-x + t)
    a = P.pdf(-t - ax) - P.pdf(t - ax)
    return (-a if x < 0 else a) / b


def Wt(P, x, t):
    ax = abs(x)
    b = P.cdf(t - ax) - P.cdf(-t - ax)
    if b < EPS:
        return 1.0
    # the paper's W~ = band term + V~^2 with the exact V~ = a / b (not the value V~'s own 1e-5 cut-off substitutes:
    # mixing the two takes W~ out of [0, 1], the defect repaired in /repo 28b9bd6)
    a = P.pdf(-t - ax) - P.pdf(t - ax)
    vv = a / b
    return ((t - ax) * P.pdf(t - ax) + (t + ax) * P.pdf(-t - ax)) / b + vv * vv


def aggregates(P, teams, tau):
    infl = [[P.sqrt(s * s + tau * tau) for (_, s) in team] for team in teams]
    mu = []
    var = []
    for team, it in zip(teams, infl):
        m = team[0][0]
        for (x, _) in team[1:]:
            m = m + x
        v = it[0] ** 2
        for s in it[1:]:
            v = v + s ** 2
        mu.append(m)
        var.append(v)
    return infl, mu, var


def _finish(P, teams, infl, var, omega, delta, kappa, limit_sigma):
    out = []
    for i, team in enumerate(teams):
        row = []
        for j, (m, s0) in enumerate(team):
            st = infl[i][j]
            share = st ** 2 / var[i]
            m2 = m + share * omega[i]
            s2 = st * P.sqrt(P.max(1 - share * delta[i], kappa))
            if limit_sigma:
                if not (s2 <= s0):
                    s2 = s0
            row.append((m2, s2))
        out.append(row)
    return out


def _gamma_call(gamma, P, c, k, mu_i, var_i, team_objs, rank):
    if gamma is None:
        return P.sqrt(var_i) / c
    return gamma(c, k, mu_i, var_i, team_objs, rank)


def rate_ref(model, P, teams, W, beta, kappa, tau, gamma=None, limit_sigma=False, team_objs=None, order=None):
    """model in pl|btf|btp|tmf|tmp; teams [[(mu, sigma)]]; W weak order as comparable rank values (lower = better).
    `order`: for the partial-pairing models, the ladder order (list of team indexes); default = stable sort by W."""
    k = len(teams)
    infl, mu, var = aggregates(P, teams, tau)
    cr = competition_ranks(W)
    objs = team_objs or [None] * k
    omega = [0.0] * k
    delta = [0.0] * k
    if model == 'pl':
        c2 = var[0] + beta ** 2
        for v in var[1:]:
            c2 = c2 + (v + beta ** 2)
        # the code accumulates from 0.0; same real value
        c = P.sqrt(c2)
        e = [P.exp(mu[i] / c) for i in range(k)]
        A = [sum(1 for s in range(k) if W[s] == W[q]) for q in range(k)]
        sumq = []
        for q in range(k):
            tot = None
            for s in range(k):
                if W[s] >= W[q]:
                    tot = e[s] if tot is None else tot + e[s]
            sumq.append(tot)
        for i in range(k):
            om = 0.0
            de = 0.0
            for q in range(k):
                if W[q] <= W[i]:
                    p = e[i] / sumq[q]
                    de = de + p * (1 - p) / A[q]
                    if q == i:
                        om = om + (1 - p) / A[q]
                    else:
                        om = om - p / A[q]
            g = _gamma_call(gamma, P, c, k, mu[i], var[i], objs[i], cr[i])
            omega[i] = om * (var[i] / c)
            delta[i] = g * (de * (var[i] / c ** 2))
        return _finish(P, teams, infl, var, omega, delta, kappa, limit_sigma)

    if model in ('btf', 'tmf'):
        pairs = [(i, q) for i in range(k) for q in range(k) if q != i]
    else:
        if order is None:
            order = sorted(range(k), key=lambda i: W[i])
        pos = {t: p for p, t in enumerate(order)}
        pairs = []
        for i in range(k):
            p = pos[i]
            if p > 0:
                pairs.append((i, order[p - 1]))
            if p < k - 1:
                pairs.append((i, order[p + 1]))
    for (i, q) in pairs:
        ciq = P.sqrt(var[i] + var[q] + 2 * beta ** 2)
        if model == 'tmp':
            ciq = 2 * ciq
        g = _gamma_call(gamma, P, ciq, k, mu[i], var[i], objs[i], cr[i])
        if model in ('btf', 'btp'):
            p = 1 / (1 + P.exp((mu[q] - mu[i]) / ciq))
            s = 1.0 if W[q] > W[i] else (0.5 if W[q] == W[i] else 0.0)
            omega[i] = omega[i] + (var[i] / ciq) * (s - p)
            delta[i] = delta[i] + ((g * (var[i] / ciq)) / ciq) * p * (1 - p)
        else:
            x = (mu[i] - mu[q]) / ciq
            t = kappa / ciq
            if W[q] > W[i]:
                omega[i] = omega[i] + (var[i] / ciq) * V(P, x, t)
                delta[i] = delta[i] + g * (var[i] / ciq) / ciq * W_(P, x, t)
            elif W[q] < W[i]:
                omega[i] = omega[i] - (var[i] / ciq) * V(P, -x, t)
                delta[i] = delta[i] + g * (var[i] / ciq) / ciq * W_(P, -x, t)
            else:
                omega[i] = omega[i] + (var[i] / ciq) * Vt(P, x, t)
                delta[i] = delta[i] + g * (var[i] / ciq) / ciq * Wt(P, x, t)
    return _finish(P, teams, infl, var, omega, delta, kappa, limit_sigma)


# ---- predictions (closed forms of C12) ------------------------------------
def team_stats(teams):
    mu = []
    var = []
    for team in teams:
        m = team[0][0]
        v = team[0][1] ** 2
        for (x, s) in team[1:]:
            m = m + x
            v = v + s ** 2
        mu.append(m)
        var.append(v)
    return mu, var


def predict_win_ref(P, teams, beta):
    n = len(teams)
    mu, var = team_stats(teams)
    if n == 2:
        N = len(teams[0]) + len(teams[1])
        p = P.cdf((mu[0] - mu[1]) / P.sqrt(N * beta ** 2 + var[0] + var[1]))
        return [p, 1 - p]
    out = []
    for a in range(n):
        tot = None
        for b in range(n):
            if a == b:
                continue
            p = P.cdf((mu[a] - mu[b]) / P.sqrt(n * beta ** 2 + var[a] + var[b]))
            tot = p if tot is None else tot + p
        out.append(tot / (n * (n - 1) / 2))
    return out


def draw_margin(P, teams, beta, inv_cdf):
    N = sum(len(t) for t in teams)
    return math.sqrt(N) * beta * inv_cdf((1 + 1 / N) / 2)


def predict_draw_ref(P, teams, beta, inv_cdf):
    n = len(teams)
    mu, var = team_stats(teams)
    m = draw_margin(P, teams, beta, inv_cdf)
    tot = None
    for a in range(n):
        for b in range(n):
            if a == b:
                continue
            s = P.sqrt(n * beta ** 2 + var[a] + var[b])
            p = P.cdf((m - mu[a] + mu[b]) / s) - P.cdf((mu[a] - mu[b] - m) / s)
            tot = p if tot is None else tot + p
    return abs(tot) / (1 if n == 2 else n * (n - 1))


def predict_rank_probs_ref(P, teams, beta, inv_cdf):
    n = len(teams)
    mu, var = team_stats(teams)
    m = draw_margin(P, teams, beta, inv_cdf)
    out = []
    for a in range(n):
        tot = None
        for b in range(n):
            if a == b:
                continue
            p = P.cdf((mu[a] - mu[b] - m) / P.sqrt(n * beta ** 2 + var[a] + var[b]))
            tot = p if tot is None else tot + p
        out.append(abs(tot / (n * (n - 1) / 2)))
    return out
