"""C10 -- predict_draw is a probability, symmetric, and largest for evenly matched teams."""
import itertools
import math

from harness import common as H
from harness import predict as PR

INFO = {
    'level': 'other',
    'explanation': (
        'Symbolic execution of the real predict_draw (sx engine, mode R; Phi Ackermannised, T1 axioms) for all mu, sigma >= 0 (sigma -> 0 '
        'inside), beta > 0. Clauses decided by z3 on every path: (range) result >= 0 and <= 1 - for n > 2 from 0 < Phi < 1, for n = 2 the plain sum '
        'of the two bands needs the analytic fact A4 (symmetric spread of Phi, below) plus a certified enclosure of Phi at the largest possible '
        'normalised margin sqrt(N/2)*Phi^-1((1+1/N)/2); because that margin is a rounded float constant the bound is proved as <= 1 + 1e-8; '
        '(perm) two-run: any permutation of teams / reversal of players leaves the result unchanged; (gap) two teams, two-run with one mu '
        'shifted by a symbolic e: whenever the gap between the totals widens the result does not increase; (equal) two-run against the game with '
        'all team totals equalised (sigmas unchanged): the equalised result is not lower. The solver\'s job for the A4 clauses is to show that the '
        'code\'s expression is the A4 instance (right margin, right spread, right normaliser).'),
    'bounds': {
        'quick': 'five models x shapes (1,1),(2,1),(2,2),(3,2) [n=2: total players N = 2..5], (1,1,1),(1,2,1) [all clauses], (1,1,1,1) [range, perm(6), equal], eight single-player teams [range]',
        'thorough': '+ (4,4),(8,8),(1,8) for the n = 2 bound (N = 8, 16, 9), (2,2,2),(1,1,1,1) all permutations, (1,1,1,1,1) range, eight teams of eight [range]',
    },
    'outside': ['IEEE rounding; exact <= 1 at sigma = 0, N = 2 (there the real-valued result is 1 up to the rounding of the float constant Phi^-1(3/4))',
                'n = 2 bound for N not listed (each N needs its own certified constant)'],
    'stubs': None,
    'axioms': ['T0/T1 for Phi',
               'A4 (trusted analytic fact, validated numerically at set-up on 20000 random points): for x1+x2 = x3+x4 >= 0 and |x1-x2| >= |x3-x4|: '
               'Phi(x1)+Phi(x2) <= Phi(x3)+Phi(x4)',
               'G: enclosure of Phi(U) at a float constant U computed with mpmath at 40 digits, widened by 1e-15'],
    'assumptions': ['real-number semantics (mode R)'],
}


def jobs(tier):
    out = []

    def add(key, shape, clause, budget=400, cost=20, **kw):
        d = {'name': f'{key}-{H.shape_str(shape)}-{clause}', 'model': key, 'shape': list(shape), 'clause': clause,
             'budget': budget, 'cost': cost}
        d.update(kw)
        out.append(d)
    for key in H.ALL:
        for shape in [(1, 1), (2, 1), (2, 2), (3, 2)]:
            for clause in ('range', 'perm', 'gap', 'equal'):
                add(key, shape, clause)
        for shape in [(1, 1, 1), (1, 2, 1)]:
            for clause in ('range', 'perm', 'equal'):
                add(key, shape, clause, cost=40)
        add(key, (1, 1, 1, 1), 'range', cost=60)
        add(key, (1, 1, 1, 1), 'perm', cost=120, nperm=6 if tier == 'quick' else 23, budget=600 if tier == 'quick' else 2400)
        add(key, (1, 1, 1, 1), 'equal', cost=120, budget=600)
        # the full size the property names
        for shape in [(1,) * 8] + ([(8,) * 8] if tier == 'thorough' else []):
            add(key, shape, 'range', cost=200, budget=900 if tier == 'quick' else 2400)
        if tier == 'thorough':
            for shape in [(4, 4), (8, 8), (1, 8)]:
                add(key, shape, 'range', budget=1200, cost=100)
                add(key, shape, 'gap', budget=1200, cost=100)
            for clause in ('range', 'perm', 'equal'):
                add(key, (2, 2, 2), clause, budget=1800, cost=200)
            add(key, (1, 1, 1, 1, 1), 'range', budget=1800, cost=300)
    return out


def phi_enclosure(u):
    import mpmath as mp
    mp.mp.dps = 40
    v = mp.erfc(-mp.mpf(u) / mp.sqrt(2)) / 2
    return float(v) - 1e-15, float(v) + 1e-15


def _run(key, shape, variant, mk):
    Model = H.model_class(key)
    m = Model(beta=mk('beta'))
    kind = variant[0]
    a = PR.call(m, 'predict_draw', PR.build_teams(m, shape, mk))
    if kind == 'range':
        return a, None
    if kind == 'perm':
        return a, PR.call(m, 'predict_draw', PR.build_teams(m, shape, mk, perm=variant[1]))
    if kind == 'players':
        return a, PR.call(m, 'predict_draw', [list(reversed(t)) for t in PR.build_teams(m, shape, mk)])
    if kind == 'gap':
        ov = {(0, 0): (mk(H.pname('mu', 0, 0)) + mk('e'), mk(H.pname('sg', 0, 0)))}
        return a, PR.call(m, 'predict_draw', PR.build_teams(m, shape, mk, overrides=ov))
    # equal: every team total becomes the common value c (each member c/size), sigmas unchanged
    ov = {(i, j): (mk('c') / k if k > 1 else mk('c'), mk(H.pname('sg', i, j))) for i, k in enumerate(shape) for j in range(k)}
    return a, PR.call(m, 'predict_draw', PR.build_teams(m, shape, mk, overrides=ov))


def _variants(spec):
    shape = tuple(spec['shape'])
    n = len(shape)
    c = spec['clause']
    if c == 'range':
        return [('range',)]
    if c == 'perm':
        ps = [p for p in itertools.permutations(range(n)) if p != tuple(range(n))]
        lim = spec.get('nperm')
        if lim and len(ps) > lim:
            ps = [ps[int(k * len(ps) / lim)] for k in range(lim)]
        v = [('perm', list(p)) for p in ps]
        if any(k > 1 for k in shape):
            v.append(('players',))
        return v
    return [(c,)]


def a4_axioms(eng, mid_only=False):
    """instances of A4 over the Phi applications of this path (and their negations); only instances whose
    hypotheses hold at every shadow point are generated (fewer axioms is always sound)."""
    import z3
    from sx import core
    apps = eng.apps.get('cdf', [])
    E = []
    for (arg, res, ash, rsh, rf) in apps:
        E.append((arg, res, ash))
        E.append((-arg, 1 - res, tuple(-x for x in ash)))
    pairs = list(itertools.combinations(range(len(E)), 2)) + [(i, i) for i in range(len(E))]
    ax = []
    for (p, q) in pairs:
        for (p2, q2) in pairs:
            if (p, q) == (p2, q2) or (mid_only and p2 != q2) or (mid_only and p == q):
                continue
            xp, rp, sp = E[p]
            xq, rq, sq = E[q]
            xa, ra, sa = E[p2]
            xb, rb, sb = E[q2]
            ok = True
            for k in range(len(sp)):
                s1, s2 = sp[k] + sq[k], sa[k] + sb[k]
                if not (abs(s1 - s2) <= 1e-9 * max(1.0, abs(s1)) and s1 >= -1e-12):
                    ok = False
                    break
            if not ok:
                continue
            hyp = z3.And(xp + xq == xa + xb, xp + xq >= 0,
                         z3.Or(z3.And(xp - xq >= xa - xb, xp - xq >= xb - xa), z3.And(xq - xp >= xa - xb, xq - xp >= xb - xa)))
            ax.append(z3.Implies(hyp, rp + rq <= ra + rb))
    return ax


def run_job(spec, ctx):
    import z3
    from sx import core
    core.install()
    key, shape, clause = spec['model'], tuple(spec['shape']), spec['clause']
    n = len(shape)
    N = sum(shape)
    PR.set_pred_facts(shape)
    beta = z3.Real('beta')
    base = PR.pred_domain(shape) + [z3.Real('e') >= -40 * beta, z3.Real('e') <= 40 * beta, z3.Real('c') >= -20 * beta, z3.Real('c') <= 20 * beta]
    mk = H.sym_maker()
    names = PR.pred_names(shape) + ['e', 'c']
    SN = core.StubNormal()

    def extra_draw(rng, e):
        e['e'] = e['beta'] * rng.choice([-3.0, -0.2, 0.1, 2.0])
        e['c'] = e['beta'] * rng.uniform(-5, 5)
    draw = PR.pred_draw(shape, extra=extra_draw)
    zN = core._N.inv_cdf((1 + 1 / N) / 2)
    marg = math.sqrt(N) * zN           # margin / beta, float constant exactly as the code computes it
    for variant in _variants(spec):
        if ctx.candidates:
            break
        for (kind, out), eng in core.iter_paths(lambda: _run(key, shape, variant, mk), base, draw,
                                                opts={'deadline': ctx.deadline, 'branch_timeout': 10000}):
            ctx.paths += 1
            if kind == 'exc':
                ctx.ob(f'{variant}: path ends in {type(out).__name__}: {out}', 'unknown')
                ctx.add_engine(eng)
                continue
            a, b = out
            L = core.lift
            H.validate_shadows(ctx, eng, [a, b] if b is not None else [a],
                               lambda env: [x for x in _run(key, shape, variant, H.float_maker(env)) if x is not None])
            if ctx.vacuity['checked'] == 0:
                H.vacuity_check(ctx, eng, L(a) == 12345)
            obs = []
            k0 = variant[0]
            if k0 == 'range':
                obs.append(('predict_draw >= 0', L(a) < 0, ()))
                if n > 2:
                    obs.append(('predict_draw <= 1', L(a) > 1, ()))
                else:
                    # mid-point application Phi(u), u = margin/s, and the anchor Phi(U) at the largest possible u
                    s_terms = [arg for (arg, *_r) in eng.apps.get('sqrt', [])]
                    sq = eng.apps['sqrt'][-1]
                    s_sym = core.Sym(sq[1], s=sq[3], f=sq[4])
                    u = (math.sqrt(N) * mk('beta') * zN) / s_sym   # same operation order as the code: identical term
                    ru = SN.cdf(u)
                    U = marg * (1 + 1e-12) / 1.4142135623
                    lo, hi = phi_enclosure(U)
                    rU = SN.cdf(core.Sym(core.rv(U), s=(U,) * len(eng.env), f=core.fconst(U)))
                    extra = a4_axioms(eng, mid_only=True) + [L(rU) <= core.rv(hi), L(rU) >= core.rv(lo)]
                    obs.append((f'predict_draw <= 1 + 1e-8 (two teams, N={N})', L(a) > 1 + core.rv(1e-8), tuple(extra)))
            elif k0 in ('perm', 'players'):
                d = PR.terms_equal(a, b)
                obs.append((f'{variant}: result unchanged', d, ()))
            elif k0 == 'gap':
                mu0 = sum(z3.Real(H.pname('mu', 0, j)) for j in range(shape[0]))
                mu1 = sum(z3.Real(H.pname('mu', 1, j)) for j in range(shape[1]))
                d0 = mu0 - mu1
                d1 = d0 + z3.Real('e')
                wider = z3.Or(z3.And(d1 >= d0, d1 >= -d0), z3.And(-d1 >= d0, -d1 >= -d0))
                obs.append(('gap widens => predict_draw does not increase', z3.And(wider, L(b) > L(a)), tuple(a4_axioms(eng))))
            else:
                # register the mid-point applications are already there: the equalised run creates Phi(+-m/s_ab)
                obs.append(('equalised totals => predict_draw not lower', L(b) < L(a), tuple(a4_axioms(eng, mid_only=True))))
            for desc, neg, extra in obs:
                if neg is None:
                    ctx.ob(desc + ' (syntactic identity)', 'syntactic')
                    continue
                r, m = eng.check(neg, *extra, timeout=90000)
                sample = {'model': key, 'shape': list(shape), 'variant': list(variant), 'negated_obligation': str(neg)[:300],
                          'a4_instances': len(extra)}
                if r == 'sat':
                    cands = [{'inputs': inp, 'model': key, 'shape': list(shape), 'variant': list(variant), 'desc': desc}
                             for inp in H.witness_models(eng, neg, names, [z3.Real('beta') == z3.RealVal('25/6')], extra=extra)]
                    H.mark_last(cands)
                    ctx.ob(desc, 'sat' if cands else 'unknown', cands, sample=sample)
                else:
                    ctx.ob(desc, r, sample=sample)
            ctx.add_engine(eng)


def replay(cand):
    key, shape, variant = cand['model'], tuple(cand['shape']), cand['variant']
    inp = dict(cand['inputs'])
    inp.setdefault('e', 0.0)
    inp.setdefault('c', 0.0)
    a, b = _run(key, shape, tuple(variant), H.float_maker(inp))
    k0 = variant[0]
    probs = []
    if k0 == 'range':
        if a < 0 or a > 1 + 1e-8:
            probs.append(f'predict_draw = {a!r}')
    elif k0 in ('perm', 'players'):
        if abs(a - b) > 1e-9:
            probs.append(f'{a!r} vs {b!r} after {variant}')
    elif k0 == 'gap':
        mk = H.float_maker(inp)
        d0 = sum(mk(H.pname('mu', 0, j)) for j in range(shape[0])) - sum(mk(H.pname('mu', 1, j)) for j in range(shape[1]))
        d1 = d0 + inp['e']
        if abs(d1) >= abs(d0) and b > a + 1e-12:
            probs.append(f'gap {d0} -> {d1}: predict_draw {a!r} -> {b!r}')
    else:
        if b < a - 1e-12:
            probs.append(f'equalised {b!r} < original {a!r}')
    return {'violated': bool(probs), 'key': f'{key}:{H.shape_str(shape)}:{k0}',
            'detail': f'C10 {H.MODEL_NAMES[key]}.predict_draw shape={shape} {variant} inputs={inp}: ' + '; '.join(probs)}
