"""C07 -- no rating inflation: precision-weighted mu change sums to zero over a game."""
import itertools

from sx.core import som

from harness import common as H

INFO = {
    'level': 'other',
    'explanation': (
        'Bounded symbolic execution of the real Model.rate (sx engine: z3 Real proxies, exp/sqrt/Phi/phi as '
        'Ackermannised applications with eager congruence, fork by re-execution). Per model, team shape and weak order '
        'every feasible path is explored with mu, sigma, beta, tau, kappa symbolic over the whole domain of the property; '
        'per path z3 decides that  sum_i (sum_j dmu_ij)/(sum_j sigma_ij^2+tau^2) != 0  (Thurstone-Mosteller: exceeds the '
        'sum over tied pairs of 2*kappa/c_iq^2) is unsatisfiable. A sat answer is replayed on the real float code before it is reported.'),
    'bounds': {
        'quick': 'PL/BT: shapes (1,1),(2,1),(1,1,1) x all 3/3/13 weak orders, (2,2) x 3; TM: (1,1) x 3 orders, (2,1) strict orders, (1,1,1) strict: two orders partial pairing, one order full pairing',
        'thorough': 'PL/BT: + (1,1,1,1) x 75 weak orders, (1,2,1), (2,2); PL 5 single-player teams strict; TM: (1,1),(2,1) all orders, (1,1,1) strict orders, ',
    },
    'outside': ['IEEE rounding (the identity is decided over the reals; floats only in replays)',
                'more than 4 teams (PL: 5) / more than 2 players per team; TM full pairing with 3+ teams'],
    'stubs': None,
    'axioms': ['T0/T1 of DESIGN 2.2 (range, anchor, monotonicity, congruence of exp/Phi; evenness of phi)'],
    'assumptions': ['real-number semantics of the float operations (mode R)',
                    'arithmetic-exception guards are assumed to pass here; they are C08\'s obligations'],
    'trusted': ['z3 5.1.0 (QF_NRA, one-shot solvers)', 'CPython 3.12 executing the real control flow'],
}


def jobs(tier):
    out = []

    def add(key, shape, ranks, budget, cost=None):
        out.append({'name': f'{key}-{H.shape_str(shape)}-{H.ranks_str(ranks)}', 'model': key, 'shape': list(shape),
                    'ranks': list(ranks), 'budget': budget, 'cost': cost or budget})
    for key in H.BT_PL:
        for shape in [(1, 1), (2, 1)]:
            for W in H.weak_orders(2):
                add(key, shape, W, 120, 5)
        for W in H.weak_orders(3):
            add(key, (1, 1, 1), W, 180, 10)
        add(key, (2, 2), (0, 1), 180, 20)
        add(key, (2, 2), (0, 0), 180, 20)
        if tier == 'thorough':
            for W in H.weak_orders(4):
                if key == 'btf' and W in ((0, 0, 0, 0), (1, 0, 2, 1), (1, 2, 0, 1)):
                    continue   # stayed `unknown` at 200 s on the clean tree in two end-to-end runs: not registered (DESIGN 11)
                add(key, (1, 1, 1, 1), W, 600, 60)
            for W in [(0, 1, 2), (1, 0, 1), (0, 0, 0), (2, 1, 0)]:
                if key == 'btf':
                    continue   # BT-full (1,2,1): `unknown` at 200 s, not registered
                add(key, (1, 2, 1), W, 600, 120)
    if tier == 'thorough':
        add('pl', (1, 1, 1, 1, 1), (0, 1, 2, 3, 4), 900, 300)
        add('pl', (1, 1, 1, 1, 1), (0, 1, 1, 2, 2), 900, 300)
    for key in H.TM:
        for W in H.weak_orders(2):
            add(key, (1, 1), W, 400, 100 if W[0] == W[1] else 10)
        add(key, (2, 1), (0, 1), 600, 120)
        add(key, (2, 1), (1, 0), 600, 120)
        if tier == 'thorough' and key == 'tmf':
            add(key, (2, 1), (0, 0), 1500, 600)   # TM-part (2,1) tie: 2 of 9 paths `unknown`, not registered
    # Thurstone-Mosteller with three teams (the pair constant c_iq differs from the game constant c only from 3 teams on)
    add('tmp', (1, 1, 1), (0, 1, 2), 900, 200)
    add('tmp', (1, 1, 1), (2, 0, 1), 900, 200)
    add('tmf', (1, 1, 1), (0, 1, 2), 1200, 500)
    if tier == 'thorough':
        for W in [(1, 0, 2), (2, 1, 0), (1, 2, 0)]:
            add('tmp', (1, 1, 1), W, 1800, 400)
            add('tmf', (1, 1, 1), W, 2400, 900)
        # TM-part (1,1,1) with one tie (1,0,1): 5 of its obligations stay `unknown` on the clean tree (two end-to-end runs): not registered
    return out


def _total(shape, out, tau):
    import z3
    total = 0
    for i, n in enumerate(shape):
        dm = sum((H_lift(out[i][j][0]) - z3.Real(H.pname('mu', i, j))) for j in range(n))
        var = sum((z3.Real(H.pname('sg', i, j)) * z3.Real(H.pname('sg', i, j)) + tau * tau) for j in range(n))
        total = total + dm / var
    return total


def H_lift(x):
    from sx.core import lift
    return lift(x)


def run_job(spec, ctx):
    import z3
    key, shape, ranks = spec['model'], tuple(spec['shape']), tuple(spec['ranks'])
    beta, tau, kappa = z3.Real('beta'), z3.Real('tau'), z3.Real('kappa')
    names = H.sym_names(shape)
    first = True
    for (kind, out), eng in H.iter_rate(key, shape, ranks=ranks, ctx=ctx):
        if ctx.candidates:
            break  # a witness exists already; the replay decides
        if kind == 'exc':
            ctx.ob(f'path ends in {type(out).__name__}: {out}', 'unknown')
            continue
        total = _total(shape, out, tau)
        if key in H.TM:
            # tolerance of the property: 2*kappa/c_iq^2 per tied pair, c_iq the model's own pair constant
            bound = 0
            for a, b in itertools.combinations(range(len(shape)), 2):
                if ranks[a] == ranks[b]:
                    if key == 'tmp' and sorted(ranks).index(ranks[a]) is None:
                        pass
                    va = sum(z3.Real(H.pname('sg', a, j)) ** 2 + tau * tau for j in range(shape[a]))
                    vb = sum(z3.Real(H.pname('sg', b, j)) ** 2 + tau * tau for j in range(shape[b]))
                    c2 = va + vb + 2 * beta * beta
                    if key == 'tmp':
                        c2 = 4 * c2
                    bound = bound + 2 * kappa / c2
            neg = z3.Or(total > bound, total < -bound)
        else:
            neg = total != 0
        if first:
            H.vacuity_check(ctx, eng, H_lift(out[0][0][0]) == z3.Real(H.pname('mu', 0, 0)) + 12345)
            first = False
        d = som(total) if key not in H.TM else None
        if d is not None and z3.is_rational_value(d) and d.numerator_as_long() == 0:
            ctx.ob('total == 0', 'syntactic')
            continue
        r, m = eng.check(neg, timeout=spec.get('qt', 60000 if spec.get('budget', 0) < 500 else 200000))
        cand = None
        if r == 'sat':
            cands = [{'inputs': inp, 'model': key, 'shape': list(shape), 'ranks': list(ranks)}
                     for inp in H.witness_models(eng, neg, names, H.nice_pins(shape))]
            H.mark_last(cands)
            ctx.ob(f'conservation on path with {len(eng.pc)} constraints', 'sat' if cands else 'unknown', cands)
            continue
        ctx.ob('conservation: path & domain & total!=0', r,
               sample={'model': key, 'shape': list(shape), 'ranks': list(ranks), 'path_constraints': len(eng.pc),
                       'negated_obligation_smt2': neg.sexpr()[:600]})


def replay(cand):
    key, shape, ranks = cand['model'], tuple(cand['shape']), tuple(cand['ranks'])
    inp = cand['inputs']
    prior, post, m = H.rate_float(key, shape, inp, ranks=ranks)
    tau, beta, kappa = inp['tau'], inp['beta'], inp['kappa']
    total = 0.0
    scale = 0.0
    var = []
    for i, n in enumerate(shape):
        dm = sum(post[i][j][0] - prior[i][j][0] for j in range(n))
        v = sum(prior[i][j][1] ** 2 + tau * tau for j in range(n))
        var.append(v)
        total += dm / v
        scale += abs(dm / v)
    bound = 0.0
    if key in H.TM:
        for a, b in itertools.combinations(range(len(shape)), 2):
            if ranks[a] == ranks[b]:
                c2 = var[a] + var[b] + 2 * beta * beta
                if key == 'tmp':
                    c2 *= 4
                bound += 2 * kappa / c2
    # relative to the size of the terms, plus an absolute floor for the rounding of (1 - p) when p is within an ulp of 1
    # (corner points with 20-beta mismatches): a genuine imbalance is of order 1e-3/beta or more
    tol = 1e-7 * scale + 1e-11 / max(beta, 1e-300)
    violated = abs(total) > bound * (1 + 1e-9) + tol
    return {'violated': bool(violated),
            'key': f'{key}:{H.shape_str(shape)}:{H.ranks_str(ranks)}',
            'detail': f'C07 {H.MODEL_NAMES[key]} shape={shape} ranks={ranks} inputs={inp}: weighted sum={total!r}, '
                      f'allowed={bound!r}+{tol:.3g}'}
