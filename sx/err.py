"""sx.err -- mode E: forward-error execution of a float kernel.

Every float operation returns exact*(1+d), |d| <= 2^-53 (exact for +-0, and for
multiplication/division by a power of two); libm calls return true*(1+e),
|e| <= KULP ulp.  The real source (phi_major -> statistics.NormalDist.cdf, or
an erfc-based body) runs on these proxies; what comes out is a z3 Real term
over x, the rounding variables and the true function values, the latter
constrained by certified grid enclosures and a log-Lipschitz contract.
"""
import math
from fractions import Fraction

import z3

U = z3.RealVal(Fraction(1, 2 ** 53))
KULP = 4


def rv(x):
    return z3.RealVal(str(Fraction(x)))


class ECtx:
    def __init__(self):
        self.cons = []
        self.n = 0
        self.ops = []

    def delta(self, bound=U):
        self.n += 1
        d = z3.Real(f"d{self.n}")
        self.cons += [d <= bound, d >= -bound]
        return d


CTX = None


def is_pow2(c):
    if c == 0:
        return True
    m, e = math.frexp(abs(c))
    return m == 0.5


def lift(x):
    return x.t if isinstance(x, E) else rv(x)


class E:
    """float value under the standard model of floating-point arithmetic"""

    def __init__(self, t):
        self.t = t

    @property
    def __class__(self):
        return float

    def _arith(self, other, f, kind, swap=False):
        if not isinstance(other, (E, int, float)):
            return NotImplemented
        a, b = (lift(other), self.t) if swap else (self.t, lift(other))
        oc = None if isinstance(other, E) else float(other)
        exact = (kind in '+-' and oc == 0.0) or (kind in '*/' and oc is not None and is_pow2(oc) and not (kind == '/' and swap))
        r = f(a, b)
        CTX.ops.append((kind, 'exact' if exact else 'rounded'))
        return E(r if exact else r * (1 + CTX.delta()))

    def __add__(s, o):
        return s._arith(o, lambda a, b: a + b, '+')

    def __radd__(s, o):
        return s._arith(o, lambda a, b: a + b, '+', True)

    def __sub__(s, o):
        return s._arith(o, lambda a, b: a - b, '-')

    def __rsub__(s, o):
        return s._arith(o, lambda a, b: a - b, '-', True)

    def __mul__(s, o):
        return s._arith(o, lambda a, b: a * b, '*')

    def __rmul__(s, o):
        return s._arith(o, lambda a, b: a * b, '*', True)

    def __truediv__(s, o):
        return s._arith(o, lambda a, b: a / b, '/')

    def __rtruediv__(s, o):
        return s._arith(o, lambda a, b: a / b, '/', True)

    def __neg__(s):
        return E(-s.t)

    def __pos__(s):
        return s

    def __abs__(s):
        from sx import core
        return s if core.ENG.branch(s.t >= 0) else -s

    # comparisons fork through the sx engine (piecewise definitions of the kernel are explored path by path)
    def _cmp(s, o, f):
        from sx import core
        if not isinstance(o, (E, int, float)):
            return NotImplemented
        return core.ENG.branch(f(s.t, lift(o)))

    def __lt__(s, o):
        return s._cmp(o, lambda a, b: a < b)

    def __le__(s, o):
        return s._cmp(o, lambda a, b: a <= b)

    def __gt__(s, o):
        return s._cmp(o, lambda a, b: a > b)

    def __ge__(s, o):
        return s._cmp(o, lambda a, b: a >= b)

    def __eq__(s, o):
        return s._cmp(o, lambda a, b: a == b)

    def __ne__(s, o):
        return s._cmp(o, lambda a, b: a != b)

    __hash__ = None


def grid_anchors(x, P, lo, hi):
    """certified enclosures of Phi on the integer grid (mpmath, 40 digits), turned into monotone bounds"""
    import mpmath as mp
    mp.mp.dps = 40
    out = []
    for g in range(int(math.floor(lo)), int(math.ceil(hi)) + 1):
        val = mp.ncdf(mp.mpf(g))
        f = Fraction(str(mp.nstr(val, 30)))
        vlo, vhi = f * (1 - Fraction(1, 10 ** 9)), f * (1 + Fraction(1, 10 ** 9))
        out += [z3.Implies(x <= g, P <= z3.RealVal(vhi)), z3.Implies(x >= g, P >= z3.RealVal(vlo))]
    return out


def zabs(v):
    return z3.If(v >= 0, v, -v)


class TrueFunctions:
    """the mathematical erf / erfc, expressed through P = Phi(x) and the contract
    A5: |Phi(x+dd) - Phi(x)| <= L(x) * |dd| * 1.01 for |dd| <= 1e-6, with
    L(x) = Phi(x)*(|x|+1) for x <= 0 (Mills ratio bound) and 0.4 for x >= 0."""

    def __init__(self, x, P, s2, lower):
        self.x, self.P, self.s2, self.lower = x, P, s2, lower
        self.k = 0

    def phi_at(self, argterm):
        self.k += 1
        Pp = z3.Real(f'Pp{self.k}')
        dd = z3.Real(f'dd{self.k}')
        L = self.P * (zabs(self.x) + 1) if self.lower else z3.RealVal('2/5')
        CTX.cons += [dd == argterm - self.x, Pp > 0, Pp < 1, zabs(Pp - self.P) <= L * rv(1.01) * zabs(dd), zabs(dd) <= rv(1e-6)]
        return Pp

    def erf(self, z):
        # erf(z) = 2 Phi(z sqrt2) - 1, libm within KULP ulp
        if not isinstance(z, E):
            return math.erf(z)
        Pp = self.phi_at(z.t * self.s2)
        CTX.ops.append(('erf', 'libm'))
        return E((2 * Pp - 1) * (1 + CTX.delta(KULP * 2 * U)))

    def erfc(self, z):
        # erfc(z) = 2 Phi(-z sqrt2)
        if not isinstance(z, E):
            return math.erfc(z)
        Pp = self.phi_at(-z.t * self.s2)
        CTX.ops.append(('erfc', 'libm'))
        return E((2 * Pp) * (1 + CTX.delta(KULP * 2 * U)))


class EMath:
    """stands in for `math` inside common.py when phi_major is written on math.erf/erfc"""

    def __init__(self, tf):
        self.tf = tf

    def __getattr__(self, n):
        return getattr(math, n)

    def erf(self, z):
        return self.tf.erf(z)

    def erfc(self, z):
        return self.tf.erfc(z)

    def sqrt(self, v):
        return math.sqrt(v)
