"""sx.run -- job runner, replay, known findings, evidence.

  python -m sx.run check  <ID> [--tier quick|thorough] [--only SUBSTR] [--jobs N]
  python -m sx.run worker <module> <spec.json> <out.json>      (internal)
  python -m sx.run replay <ID> <replay.json>                   (clean interpreter)

Exit codes: 0 property held on everything explored (inconclusive obligations
are listed, never counted as success in the evidence); 1 a violation that
replays on the real float code and is not a listed known finding; 3 harness
error (vacuous domain, translator mismatch, crashed worker).
"""
import argparse
import concurrent.futures
import hashlib
import importlib
import json
import os
import signal
import subprocess
import sys
import tempfile
import time
import traceback

ROOT = os.path.dirname(os.path.dirname(os.path.abspath(__file__)))
REPO = os.environ.get('VERIF_REPO', '/repo')
PY = sys.executable


def _env():
    e = dict(os.environ)
    if e.get('VERIF_TIER_ACTIVE') == 'thorough':
        e.setdefault('VERIF_XCHECK', '7')
    e['PYTHONPATH'] = REPO + os.pathsep + ROOT
    e['PYTHONDONTWRITEBYTECODE'] = '1'
    e.setdefault('PYTHONHASHSEED', '0')
    return e


# --------------------------------------------------------------------------
# worker side
# --------------------------------------------------------------------------
class Ctx:
    """bookkeeping handed to harness.run_job"""

    def __init__(self, spec, deadline):
        self.spec = spec
        self.deadline = deadline
        self.obligations = 0
        self.discharged = 0
        self.inconclusive = []
        self.candidates = []
        self.samples = []
        self.paths = 0
        self.exc_paths = 0
        self.queries = 0
        self.solver_s = 0.0
        self.vacuity = {'reach_sat': 0, 'false_ob_sat': 0, 'checked': 0}
        self.validated = 0
        self.notes = []
        self.errors = []
        self.stats = {}
        self.syntactic = 0

    def ob(self, desc, verdict, cand=None, sample=None):
        """record one obligation; verdict in unsat|sat|unknown|syntactic;
        cand = one candidate dict or a list of them (alternative witnesses of the same obligation)"""
        self.obligations += 1
        if verdict in ('unsat', 'syntactic'):
            self.discharged += 1
            if verdict == 'syntactic':
                self.syntactic += 1
        elif verdict == 'sat':
            if cand:
                for c in (cand if isinstance(cand, list) else [cand]):
                    c = dict(c)
                    c.setdefault('ob', desc)
                    c['ob_id'] = self.obligations
                    self.candidates.append(c)
            else:
                self.inconclusive.append({'ob': desc, 'why': 'sat without replayable witness'})
        else:
            self.inconclusive.append({'ob': desc, 'why': str(verdict)})
        if sample is not None and len(self.samples) < 4:
            self.samples.append(sample)

    def add_stats(self, stats):
        self.paths += stats.get('paths', 0)
        self.exc_paths += stats.get('exc', 0)
        for k, v in stats.items():
            if isinstance(v, (int, float)):
                self.stats[k] = self.stats.get(k, 0) + v

    def add_engine(self, eng):
        self.queries += eng.nq
        self.solver_s += eng.tq

    def error(self, msg):
        self.errors.append(msg)

    def result(self):
        return dict(job=self.spec.get('name'), obligations=self.obligations, discharged=self.discharged,
                    inconclusive=self.inconclusive[:50], n_inconclusive=len(self.inconclusive),
                    candidates=self.candidates[:20], samples=self.samples, paths=self.paths,
                    exc_paths=self.exc_paths, queries=self.queries, solver_s=round(self.solver_s, 3),
                    vacuity=self.vacuity, validated=self.validated, notes=self.notes[:20], errors=self.errors[:20],
                    stats={k: (round(v, 2) if isinstance(v, float) else v) for k, v in self.stats.items()},
                    syntactic=self.syntactic)


_FUNCS = set()


def _start_function_monitor():
    """record every code object under REPO/openskill that gets executed (the
    'functions encoded' of the evidence).  sys.monitoring, fires once per code object."""
    mon = sys.monitoring
    tool = mon.COVERAGE_ID
    try:
        mon.use_tool_id(tool, 'sx')
    except ValueError:
        return
    prefix = os.path.join(REPO, 'openskill')

    def cb(code, off):
        fn = code.co_filename
        if fn.startswith(prefix):
            if not code.co_name.startswith('<module') and code.co_name[:1].islower() or code.co_name.startswith('_'):
                _FUNCS.add(os.path.relpath(fn, REPO) + '::' + code.co_qualname)
        return mon.DISABLE
    mon.register_callback(tool, mon.events.PY_START, cb)
    mon.set_events(tool, mon.events.PY_START)


def worker_main(modname, spec_path, out_path):
    spec = json.load(open(spec_path))
    t0 = time.time()
    deadline = t0 + float(spec.get('budget', 300)) * 0.97
    _start_function_monitor()
    ctx = Ctx(spec, deadline)
    status = 'done'
    try:
        mod = importlib.import_module(modname)
        mod.run_job(spec, ctx)
    except BaseException as e:  # noqa: BLE001
        from sx.core import Budget
        if isinstance(e, Budget):
            status = 'budget'
        else:
            status = 'error'
            ctx.error(''.join(traceback.format_exception(type(e), e, e.__traceback__))[-3000:])
    res = ctx.result()
    try:
        from sx import core as _core
        res['xcheck'] = {k: _core.XCHECK[k] for k in ('checked', 'agree', 'unknown', 'disagree')}
        if _core.XCHECK['disagree']:
            res['errors'] = (res.get('errors') or []) + ['cvc5 answers sat on an obligation z3 answered unsat: ' + (_core.XCHECK['samples'] or [''])[0][:800]]
            status = 'error' if status == 'done' else status
    except Exception:  # noqa: BLE001
        pass
    res['status'] = status
    res['wall_s'] = round(time.time() - t0, 2)
    res['functions'] = sorted(_FUNCS)
    with open(out_path, 'w') as f:
        json.dump(res, f)


# --------------------------------------------------------------------------
# parent side
# --------------------------------------------------------------------------
_LIVE = set()
_STOP = [False]


def _run_proc(cmd, timeout):
    if _STOP[0]:
        return -9, '', 'stopped (VERIF_FAST_FAIL)', True
    p = subprocess.Popen(cmd, env=_env(), cwd=ROOT, stdout=subprocess.PIPE, stderr=subprocess.PIPE,
                         start_new_session=True, text=True)
    _LIVE.add(p)
    try:
        return _run_proc2(p, timeout)
    finally:
        _LIVE.discard(p)


def _run_proc2(p, timeout):
    try:
        out, err = p.communicate(timeout=timeout)
        return p.returncode, out, err, False
    except subprocess.TimeoutExpired:
        try:
            os.killpg(p.pid, signal.SIGKILL)
        except ProcessLookupError:
            pass
        out, err = p.communicate()
        return -9, out, err, True


def run_job(modname, spec, tmpdir):
    sp = os.path.join(tmpdir, hashlib.sha1(json.dumps(spec, sort_keys=True).encode()).hexdigest()[:16])
    with open(sp + '.spec', 'w') as f:
        json.dump(spec, f)
    budget = float(spec.get('budget', 300))
    t0 = time.time()
    rc, out, err, timed_out = _run_proc([PY, '-m', 'sx.run', 'worker', modname, sp + '.spec', sp + '.out'], budget + 15)
    res = None
    if os.path.exists(sp + '.out'):
        try:
            res = json.load(open(sp + '.out'))
        except ValueError:      # truncated: the worker was killed while writing (VERIF_FAST_FAIL stop)
            res = None
    if res is None:
        res = dict(job=spec.get('name'), status='timeout' if timed_out else 'crash', obligations=0, discharged=0,
                   inconclusive=[], n_inconclusive=0, candidates=[], samples=[], paths=0, exc_paths=0, queries=0,
                   solver_s=0.0, vacuity={}, validated=0, notes=[], errors=[(err or '')[-2000:]], functions=[],
                   wall_s=round(time.time() - t0, 2), stats={}, syntactic=0)
    res['spec'] = spec
    return res


def replay_candidate(pid, cand, tmpdir):
    """run the harness' replay() on the candidate inputs in a clean interpreter"""
    fd, path = tempfile.mkstemp(dir=tmpdir, suffix='.cand')
    with os.fdopen(fd, 'w') as f:
        json.dump(cand, f)
    rc, out, err, to = _run_proc([PY, '-m', 'sx.run', 'replay-raw', pid, path], 600)
    try:
        return json.loads(out.strip().splitlines()[-1])
    except Exception:  # noqa: BLE001
        return {'violated': False, 'detail': 'replay crashed: ' + (err or out)[-500:], 'error': True}


def replay_raw(pid, path):
    mod = importlib.import_module('harness.' + pid.lower())
    cand = json.load(open(path))
    alts = []
    if isinstance(cand.get('inputs'), dict):
        alts = cand['inputs'].pop('__alt__', [])
    alts2 = cand.pop('__alts__', [])   # alternative candidates: dicts of fields overriding the candidate
    try:
        r = mod.replay(cand)
        # the solver's own model did not reproduce (uninterpreted exp/Phi): try the alternative concrete
        # points attached to the same `sat` obligation; anything reported is reproduced on the real code
        for a in alts:
            if r.get('violated'):
                break
            c2 = dict(cand)
            c2['inputs'] = a
            try:
                r2 = mod.replay(c2)
            except Exception:  # noqa: BLE001
                continue
            if r2.get('violated'):
                r = r2
                r['inputs_used'] = a
                r['witness_source'] = 'corner/shadow point tried after the solver model did not reproduce'
        for a in alts2:
            if r.get('violated'):
                break
            c2 = dict(cand)
            c2.update(a)
            try:
                r2 = mod.replay(c2)
            except Exception:  # noqa: BLE001
                continue
            if r2.get('violated'):
                r = r2
                r['cand_used'] = a
                r['witness_source'] = 'alternative candidate tried after the solver model did not reproduce'
    except Exception as e:  # noqa: BLE001
        r = {'violated': False, 'detail': 'replay raised ' + repr(e) + ' ' + traceback.format_exc()[-800:], 'error': True}
    print(json.dumps(r))


def load_known(pid):
    """KNOWN_FINDINGS.txt: 'finding: property=<id> key=<key> :: text'.  'fixed:' lines suppress nothing."""
    out = []
    p = os.path.join(ROOT, 'KNOWN_FINDINGS.txt')
    if not os.path.exists(p):
        return out
    for line in open(p):
        line = line.strip()
        if not line.startswith('finding:'):
            continue
        body = line[len('finding:'):].strip()
        head, _, text = body.partition('::')
        fields = dict(x.split('=', 1) for x in head.split() if '=' in x)
        if fields.get('property') == pid:
            out.append((fields.get('key', ''), text.strip()))
    return out


def check_main(pid, tier, only=None, njobs=None, keep=False):
    t0 = time.time()
    os.environ['VERIF_TIER_ACTIVE'] = tier
    seed = int(os.environ.get('VERIF_SEED', '0') or 0)
    modname = 'harness.' + pid.lower()
    sys.path.insert(0, REPO)
    mod = importlib.import_module(modname)
    jobs = mod.jobs(tier)
    if only:
        jobs = [j for j in jobs if only in j['name']]
    jobs.sort(key=lambda j: -float(j.get('cost', j.get('budget', 300))))
    njobs = njobs or int(os.environ.get('VERIF_JOBS', '0') or 0) or min(16, os.cpu_count() or 4)
    tmpdir = tempfile.mkdtemp(prefix='sx-' + pid + '-')
    results = []
    fast = bool(os.environ.get('VERIF_FAST_FAIL'))
    try:
        with concurrent.futures.ThreadPoolExecutor(max_workers=njobs) as ex:
            futs = [ex.submit(run_job, modname, j, tmpdir) for j in jobs]
            for f in concurrent.futures.as_completed(futs):
                if f.cancelled():
                    continue
                r = f.result()
                if _STOP[0]:
                    continue
                results.append(r)
                if fast and r['candidates']:
                    # VERIF_FAST_FAIL (seed evaluation only, never a registered command): stop at the first reproduced violation
                    known0 = load_known(pid)
                    for cand in r['candidates']:
                        rr = replay_candidate(pid, dict(cand, job=r['job'], spec=r['spec']), tmpdir)
                        if rr.get('violated') and not [k for k in known0 if k[0] == rr.get('key', '')]:
                            _STOP[0] = True
                            break
                    if _STOP[0]:
                        for g in futs:
                            g.cancel()
                        for p in list(_LIVE):
                            try:
                                os.killpg(p.pid, signal.SIGKILL)
                            except ProcessLookupError:
                                pass
                if os.environ.get('VERIF_VERBOSE'):
                    print(f"  [{r['status']}] {r['job']} paths={r['paths']} ob={r['discharged']}/{r['obligations']} "
                          f"cand={len(r['candidates'])} inc={r['n_inconclusive']} {r['wall_s']}s", flush=True)
        _STOP[0] = False
        results.sort(key=lambda r: r['job'] or '')
        # ---- replay candidates -------------------------------------------------
        known = load_known(pid)
        violations = []
        known_hits = {}
        spurious = 0
        replayed = 0
        for r in results:
            seen_keys = set()
            done_obs = set()
            for cand in r['candidates']:
                if cand.get('ob_id') in done_obs:
                    continue
                cand = dict(cand)
                cand['job'] = r['job']
                cand['spec'] = r['spec']
                rr = replay_candidate(pid, cand, tmpdir)
                replayed += 1
                if rr.get('violated'):
                    done_obs.add(cand.get('ob_id'))
                    key = rr.get('key', '')
                    hit = [k for k in known if k[0] == key]
                    if hit:
                        known_hits[key] = hit[0][1] or rr.get('detail', '')
                        continue
                    if key in seen_keys:
                        continue
                    seen_keys.add(key)
                    violations.append((cand, rr))
                else:
                    if not cand.get('last', True):
                        continue
                    spurious += 1
                    r.setdefault('spurious', []).append({'ob': cand.get('ob'), 'detail': rr.get('detail', '')[:300]})
        # ---- report ------------------------------------------------------------
        harness_errors = [(r['job'], e) for r in results for e in r.get('errors', []) if e]
        crashed = [r['job'] for r in results if r['status'] in ('crash', 'error')]
        vac_bad = [r['job'] for r in results if r.get('vacuity', {}).get('checked', 0) and
                   (r['vacuity'].get('reach_sat', 0) == 0)]
        os.makedirs(os.path.join(ROOT, 'replays'), exist_ok=True)
        lines = []
        vio_keys = set()
        for cand, rr in violations:
            k = rr.get('key', '') or json.dumps(cand.get('inputs', {}), sort_keys=True)
            if k in vio_keys or len(lines) >= 5:
                continue
            vio_keys.add(k)
            h = hashlib.sha1(k.encode()).hexdigest()[:10]
            path = os.path.join(ROOT, 'replays', f'{pid}-{h}.json')
            if isinstance(cand.get('inputs'), dict):
                cand = dict(cand)
                cand['inputs'] = dict(rr.get('inputs_used') or cand['inputs'])
                cand['inputs'].pop('__alt__', None)
            if rr.get('cand_used'):
                cand = dict(cand)
                cand.update(rr['cand_used'])
            cand.pop('__alts__', None)
            with open(path, 'w') as f:
                json.dump({'property': pid, 'candidate': cand, 'replay_result': rr,
                           'how': f'./check {pid} --replay {path}'}, f, indent=1, default=str)
            lines.append(f'VIOLATION property={pid} replay={path}')
            print(f'  {rr.get("detail", "")[:600]}')
        for key, text in sorted(known_hits.items()):
            print(f'KNOWN-FINDING: property={pid} {key} {text}')
        for ln in lines:
            print(ln)
        ob = sum(r['obligations'] for r in results)
        dis = sum(r['discharged'] for r in results)
        inc = sum(r['n_inconclusive'] for r in results) + spurious
        timeouts = [r['job'] for r in results if r['status'] in ('timeout', 'budget')]
        for r in results:
            for i in r['inconclusive'][:3]:
                print(f"INCONCLUSIVE {pid} {r['job']}: {i['ob']} ({i['why']})")
            for s in r.get('spurious', [])[:3]:
                print(f"INCONCLUSIVE {pid} {r['job']}: solver model did not replay: {s['ob']} ({s['detail'][:160]})")
        for j in timeouts:
            print(f'INCONCLUSIVE {pid} {j}: job budget exhausted')
        for j, e in harness_errors[:5]:
            print(f'HARNESS-ERROR {pid} {j}: {e[-1500:]}')
        wall = time.time() - t0
        if not os.environ.get('VERIF_KEEP_EVIDENCE') and not fast:
            write_evidence(mod, pid, tier, seed, results, wall, len(violations), replayed, spurious, known_hits, timeouts)
        print(f'{pid} [{tier}] jobs={len(results)} paths={sum(r["paths"] for r in results)} '
              f'obligations={ob} discharged={dis} inconclusive={inc} timeouts={len(timeouts)} '
              f'violations={len(lines)} known={len(known_hits)} wall={wall:.1f}s')
        if lines:
            return 1
        if harness_errors or crashed or vac_bad:
            if vac_bad:
                print(f'HARNESS-ERROR {pid}: vacuous domain in {vac_bad[:5]}')
            return 3
        return 0
    finally:
        if not keep:
            subprocess.run(['rm', '-rf', tmpdir])


DEFAULT_STUBS = [
    "math (module global of every library module) -> shim: sqrt/exp/erf/erfc become Ackermannised applications with eager congruence; isclose/floor/ceil/trunc/fabs exact; rest delegated",
    "openskill.models.weng_lin.common._normal -> stub: cdf/pdf of symbolic arguments become Ackermannised applications; inv_cdf and concrete arguments evaluated by the library",
    "float, int, round, max, min as module globals of every library module -> identity on the term / fresh integer term with the exact relation / ITE terms",
]


def write_evidence(mod, pid, tier, seed, results, wall, nviol, replayed, spurious, known_hits, timeouts):
    info = getattr(mod, 'INFO', {})
    ob = sum(r['obligations'] for r in results)
    dis = sum(r['discharged'] for r in results)
    funcs = sorted({f for r in results for f in r.get('functions', [])})
    samples = []
    for r in results:
        for s in r['samples']:
            if len(samples) < 8:
                samples.append({'job': r['job'], 'obligation': s})
    if not samples:
        samples = [{'job': r['job'], 'spec': r['spec']} for r in results[:3]]
    jobs_nontrivial = sum(1 for r in results if r['obligations'] > 0 and r['status'] == 'done')
    cov = {
        'explanation': info.get('explanation', '') + f' This run: {len(results)} jobs (one per model/shape/outcome/config cell), '
                       f'{sum(r["paths"] for r in results)} symbolic paths of the real code, {ob} obligations of which {dis} discharged '
                       f'(unsat or syntactic identity of result terms), {sum(r["queries"] for r in results)} solver queries, '
                       f'{sum(r["solver_s"] for r in results):.1f}s solver time.',
        'evaluations': max(1, sum(r['paths'] for r in results)),
        'distinct_nontrivial': jobs_nontrivial,
        'rule': 'one evaluation = one feasible symbolic path of the real function (each stands for all inputs satisfying its '
                'path condition); distinct_nontrivial = number of job cells (model x shape x outcome x configuration) that '
                'finished with at least one obligation decided',
        'samples': samples,
        'obligations': ob,
        'discharged': dis,
        'inconclusive': sum(r['n_inconclusive'] for r in results) + spurious,
        'syntactic_identities': sum(r.get('syntactic', 0) for r in results),
        'solver_queries': sum(r['queries'] for r in results),
        'solver_seconds': round(sum(r['solver_s'] for r in results), 2),
        'paths': sum(r['paths'] for r in results),
        'exception_paths': sum(r['exc_paths'] for r in results),
        'jobs': len(results),
        'jobs_budget_exhausted': timeouts,
        'functions_encoded': funcs,
        'bounds': info.get('bounds', {}).get(tier, info.get('bounds', {})),
        'outside_claim': info.get('outside', []),
        'stubs': info.get('stubs') or DEFAULT_STUBS,
        'axioms': info.get('axioms', []),
        'vacuity': {
            'harnesses_checked': sum(r.get('vacuity', {}).get('checked', 0) for r in results),
            'reachability_sat': sum(r.get('vacuity', {}).get('reach_sat', 0) for r in results),
            'false_obligation_sat': sum(r.get('vacuity', {}).get('false_ob_sat', 0) for r in results),
        },
        'translator_validation_points': sum(r.get('validated', 0) for r in results),
        'cvc5_crosscheck': {k: sum((r.get('xcheck') or {}).get(k, 0) for r in results) for k in ('checked', 'agree', 'unknown', 'disagree')},
        'counterexamples_replayed': replayed,
        'counterexamples_not_reproduced': spurious,
        'known_findings_matched': sorted(known_hits),
        'checker_cmd': f'./check {pid} --tier {tier}',
        'trusted_base': info.get('trusted', ['z3 5.1.0', 'CPython 3.12 semantics of the executed control flow']),
        'exhaustive': False,
        'per_job': [{'job': r['job'], 'status': r['status'], 'paths': r['paths'], 'obligations': r['obligations'],
                     'discharged': r['discharged'], 'wall_s': r['wall_s']} for r in results],
    }
    ev = {
        'property_id': pid,
        'tier': tier,
        'seed': seed,
        'level': info.get('level', 'other'),
        'coverage': cov,
        'assumptions': info.get('assumptions', []),
        'wall_s': round(wall, 2),
        'violations': nviol,
    }
    os.makedirs(os.path.join(ROOT, 'evidence'), exist_ok=True)
    tmp = os.path.join(ROOT, 'evidence', f'.{pid}.json.tmp')
    with open(tmp, 'w') as f:
        json.dump(ev, f, indent=1, default=str)
    os.replace(tmp, os.path.join(ROOT, 'evidence', f'{pid}.json'))


def replay_main(pid, path):
    data = json.load(open(path))
    cand = data.get('candidate', data)
    tmpdir = tempfile.mkdtemp(prefix='sx-replay-')
    try:
        rr = replay_candidate(pid, cand, tmpdir)
    finally:
        subprocess.run(['rm', '-rf', tmpdir])
    print(json.dumps(rr, indent=1))
    if rr.get('violated'):
        print(f'VIOLATION property={pid} replay={path}')
        return 1
    return 0


def main():
    if len(sys.argv) >= 2 and sys.argv[1] == 'worker':
        worker_main(sys.argv[2], sys.argv[3], sys.argv[4])
        return 0
    if len(sys.argv) >= 2 and sys.argv[1] == 'replay-raw':
        replay_raw(sys.argv[2], sys.argv[3])
        return 0
    ap = argparse.ArgumentParser()
    ap.add_argument('cmd', choices=['check', 'replay'])
    ap.add_argument('pid')
    ap.add_argument('path', nargs='?')
    ap.add_argument('--tier', default=os.environ.get('VERIF_TIER') or 'quick')
    ap.add_argument('--only')
    ap.add_argument('--jobs', type=int)
    ap.add_argument('--keep', action='store_true')
    a = ap.parse_args()
    if a.cmd == 'replay':
        return replay_main(a.pid, a.path)
    return check_main(a.pid, a.tier, a.only, a.jobs, a.keep)


if __name__ == '__main__':
    sys.exit(main())
