#!/usr/bin/env python3
"""Regenerates /verif/MANIFEST.json from the table below (run after adding a harness)."""
import json
import os

ROOT = os.path.dirname(os.path.dirname(os.path.abspath(__file__)))

TRUST = ('Trusted: z3 5.1.0; CPython executing the real control flow; real-number semantics of float operations '
         '(mode R) unless the entry says QF_FP; the T2 analytic facts named in the evidence. Outside: IEEE rounding, '
         'sizes beyond the stated bounds.')

CHECKS = {
    # id: (technique, level text, level note, design ref)
    'C01': ('bounded symbolic execution of the real rate() and of an independent reference in one path (sx engine) + z3 QF_NRA equality per player; sat models replayed on float code',
            'For every model, listed team shapes (PL/BT up to 8 teams and 8 players, TM up to 3 teams) and outcomes, limit_sigma on/off, default and uninterpreted gamma: z3 shows on every path that the real rate() returns exactly the terms of the reference written from the paper (Algorithms 1-4 with the documented extensions).',
            TRUST + ' The reference ref/wenglin.py is trusted to be the published rule.', '6/C01'),
    'C02': ('symbolic execution of the real rate() over a symbolic rank/score vector (values z3 Real, Python kinds z3 Int tags; z3 decides path feasibility and exhaustiveness), per-path concrete slot/id/aliasing oracle',
            'Every path of rate() over ALL finite int/float/bool rank or score vectors of length 2-4 (5 single-kind in thorough) is explored on games with distinct players; on each path ids, names, nesting, aliasing and the reference posterior of each slot are checked.',
            'Trusted: z3 (LRA/LIA feasibility), CPython list.sort/sorted executed natively, float reference ref/wenglin.py at 1e-9. Game values are concrete (distinct generic players); the vector is fully symbolic.', '6/C02'),
    'C03': ('symbolic execution of the real rate() over a symbolic rank/score vector (values z3 Real, kinds z3 Int tags), z3-decided path partition; per path comparison with the real code on canonical dense ranks',
            'Every path of rate() over ALL finite int/float/bool rank or score vectors of length 2-4 (5 single-kind in thorough): the result equals the result for the canonical dense int ranks of the path\'s weak order; scores == negated ranks; omitted == [0..n-1].',
            'Trusted: z3 (LRA/LIA), exactness of CPython comparisons between finite int/float/bool. NaN/inf ranks outside. Game values concrete.', '6/C03'),
    'C08': ('symbolic execution of the real rate()/predict_* with every arithmetic exception (zero division incl. cancellation of A-B to zero, sqrt domain, exp overflow, float underflow of exp/Phi/phi to zero) as a guarded path outcome; z3 refutes each guard on its cone of influence / the full path; open guards replayed on float code',
            'Over the exact numeric domain of the property (symbolic beta covers the rescaling; sigma = 0 with tau > 0 included) and the listed shapes up to 8+8 players and eight single-player teams (16+16 in thorough): every guard on every path is refuted, no path ends in an exception.',
            TRUST + ' Overflow/underflow of + - * / ** is argued by magnitudes, not solved.', '6/C08'),
    'C09': ('symbolic execution of the real predict_win (single and two-run) + z3 (QF_NRA with Phi axioms) per clause and path; sat models replayed on float code',
            'For every model and listed shape and all mu, sigma >= 0, beta > 0: one value per team in [0,1] summing to 1; every team permutation (all n!) and player reversal permutes the result; identical teams (also the same list object entered twice) get identical values (two: exactly 1/2); raising any member\'s mu by any d > 0 never lowers own and never raises another team\'s value.',
            TRUST, '6/C09'),
    'C10': ('symbolic execution of the real predict_draw (single and two-run) + z3 (QF_NRA, Phi axioms, A4 symmetric-spread instances, certified Phi enclosure) per clause and path; sat models replayed on float code',
            'For every model and listed shape and all mu, sigma >= 0 (sigma -> 0 inside), beta > 0: result in [0, 1] (two-team bound proved as <= 1+1e-8 for N = 2..5, thorough: 8, 9, 16), order independence (team permutations, player reversal), gap monotonicity for two teams, equalising totals never lowers it.',
            TRUST + ' A4 is a trusted analytic fact about Phi (numerically validated at set-up).', '6/C10'),
    'C11': ('symbolic execution of the real predict_rank with Phi over-approximated by free values (rank clauses, z3 linear arithmetic per path) and with Phi axioms in one path with predict_draw (sum clause, QF_NRA)',
            'For every model: on every order/tie pattern of the probabilities of 2-4 teams (5 in thorough) the returned ranks are ints in 1..n consistent with the probabilities, positions are the teams\' own; and probabilities + predict_draw = 1 for the listed shapes with n >= 3.',
            TRUST, '6/C11'),
    'C12': ('symbolic execution of the real predict_* and of the documented closed forms in one path (sx engine) + z3 equality per value; sat models replayed against mpmath',
            'For every model and the listed shapes (up to 8 teams / 8 players in thorough) and all mu, sigma >= 0, beta > 0: every value returned by predict_win, predict_draw and predict_rank is the same real-valued term as the documented closed form, also when one team list or one rating object is entered twice.',
            TRUST + ' predict_rank: the rank assignment is stubbed here (decided in C11).', '6/C12'),
    'C13': ('symbolic execution of the real rate()/predict_* over lazy kind proxies (z3 Int tags per argument position, fork at first use); per-path three-valued evaluation of the property\'s definition of malformed; side-effect monitors',
            'The paths partition the whole argument grammar (containers, team shapes, foreign ratings, element kinds at every position, both selectors): rejected paths are malformed for every completion of the uninspected positions, accepted paths well-formed, no other exception class escapes, and a rejected call leaves every rating and the model untouched.',
            'Trusted: CPython semantics of the executed operations on the menu representatives; the menus (printed in the evidence) stand for their kinds.', '6/C13'),
    'C14': ('symbolic execution of the real rate()/predict_* with write/inspection monitors + two-run z3 equality (history vs fresh model, original vs rebuilt ratings); thread interleavings: z3 over integer positions of the recorded shared accesses of two calls, sat orders forced on real threads',
            'On every path of every call variant (per-call tau symbolic, limit_sigma in {None,True,False}) no model attribute is written, ids/names/hash are never consulted, and a call after an arbitrary earlier call (through the same model, a differently configured sibling instance or another model class) returns the same terms as on a fresh model in a pristine import. Two threads, six call pairs per model on one shared model: no interleaving of the recorded shared accesses (any number of context switches) lets a read observe a foreign write with another value than alone; a racy twin is found and reproduced in every job.',
            TRUST + ' Outside: three or more threads, PYTHONHASHSEED (only the premise that nothing hash-order dependent runs is checked), state the access recorder cannot see.', '6/C14'),
    'C15': ('two-run symbolic execution of the real rate() in one path (sx engine) + z3 equality of result terms; sat models replayed on float code',
            'For symbolic t >= 0 (the t == 0 fork included), symbolic model-level tau, all b, b0: rate with the per-call option returns the same terms as a model constructed with that option; omitted/None uses the model\'s own.',
            TRUST, '6/C15'),
    'C04': ('two-run symbolic execution of the real rate() in one path (original vs permuted presentation) + z3 equality of the posterior terms; sat models replayed on float code',
            'For the listed shapes, every weak order and every admissible permutation of teams (all n! for n <= 3; 4 teams in thorough) and player reversal: every player gets the identical real-valued posterior in both presentations, for all mu, sigma, beta, tau, kappa.',
            TRUST, '6/C04'),
    'C16': ('two-run symbolic execution of the real rate()/predict_* in one path (original vs rescaled / shifted game) with solver-side hints sqrt(k^2 a) = k sqrt(a), exp(a) = exp(a2) exp(a-a2); z3 equality of result terms; sat models replayed on float code',
            'For symbolic k in [1e-3, 1e3]: rate() of PL/BT-full/BT-part is homogeneous of degree 1 and all three predictions of all five models are scale-free; for symbolic shift s with equal team sizes: posterior mu shifts by s, sigma and predictions are unchanged, all five models; listed shapes and outcomes.',
            TRUST, '6/C16'),
    'C17': ('forward-error symbolic execution of the real phi_major source (z3 reals with rounding variables, certified grid enclosures) + symbolic execution of the real v/w/vt/wt with analytic axiom instances (Mills, truncated-mean) per path; sat models replayed against mpmath',
            'CDF: relative error <= 1e-12 on [-37.5, 38] under the standard model of floating point with 4-ulp libm. v, w, vt, wt for x in [-40,40], t in [1e-8,1e-2]: defined, v >= 0, w >= 0, vt and exact V~ in [-t-x, t-x] (so within 2t), v within 2% of V on its asymptotic branch, guards fire exactly at the documented constants, w <= 1 (Sampford), wt in [0, 1], v and w are the mathematical V and W above their guard (term identity), wt is the exact W~ above its guard (<= 20t on a tree where it is not), denominators of vt/wt formed without avoidable cancellation. Not claimed: the float part of the 1e-6 / 1e-13/t accuracy clauses, dense sweeps.',
            TRUST + ' Mode E assumes the standard FP model without underflow and 4-ulp erf/erfc.', '6/C17'),
    'C18': ('symbolic execution of the real comparison dunders / ordinal() on exact binary64 proxies (z3 QF_FP, RNE) + per-path equivalence with the ordinal specification; foreign operands via lazy kind proxy; sorted() paths',
            'For each of the five rating classes and each of < <= > >= == != over ALL finite doubles mu, sigma: result <=> the corresponding comparison of mu-3*sigma (== : both fields equal); ordinal(z) = mu - z*sigma for symbolic z; foreign operands refused with ValueError / unequal; sorted() of 3 (4) ratings is ordinal-monotone on every path.',
            'Trusted: z3 FloatingPoint theory as IEEE-754 binary64 = CPython float. No real-number abstraction here.', '6/C18'),
    'C19': ('differential symbolic execution of the five copies: predictions in one path (z3 term equality), C13 grammar explored per base class with concrete cross-class outcome comparison, BT-part vs BT-full two-run on two-team games; reflective signature check',
            'Identical prediction terms across the five classes for the listed shapes; identical accept/reject outcome class on every path of the malformed-argument grammar; identical rating rules (compare/hash/copy/defaults); BradleyTerryPart == BradleyTerryFull on all listed two-team shapes and outcomes; same signatures and registry (reflective, not solver).',
            TRUST, '6/C19'),
    'C20': ('symbolic execution of the real constructors: symbolic values incl. 0/negatives with enumerated None-patterns, lazy kind proxies for create_rating arguments, uuid stub, two-run syntactic identity for restore',
            'rating()/create_rating() store exactly the passed terms (defaults only for None), one fresh id per object; deepcopy keeps mu, sigma, name, id in distinct objects; after a symbolic game, rate() and the three predictions on ratings rebuilt from (mu, sigma) are syntactically identical terms to those on the original objects.',
            TRUST, '6/C20'),
    'C05': ('symbolic execution of the real rate() with several outcomes of one symbolic game in one path + z3 (lemma abstraction, then full QF_NRA with exp/Phi axioms); TM through function-level lemmas V >= max(0,t-x), -t-x <= V~ <= t-x proved on the real v/vt and instantiated at call sites',
            'For the listed shapes and all mu, sigma, beta, tau, kappa: sole winners never lose mu, sole losers never gain, members move in proportion to their inflated variance; two teams: loss <= draw <= win, prior between loss and win, a draw never favours the stronger team (TM: beyond the draw-margin term); moving up one place never lowers mu (PL, full pairing); identical teams end ordered by place.',
            TRUST, '6/C05'),
    'C06': ('symbolic execution of the real rate() from an arbitrary valid prior state + z3 on the lemma abstraction (range lemmas of every product/quotient/primitive) with fall-back to the full term; function-level lemmas W, W~ >= 0 proved on the real w/wt and applied at call sites after discharging their preconditions',
            'Inductive step for all histories: from any valid state, on every path of the listed shapes/outcomes/configurations (default and uninterpreted gamma >= 0, limit_sigma on/off) sigma\' > 0, sigma\'^2 <= sigma^2 + tau^2 and sigma\' <= sigma under limit_sigma. Thurstone-Mosteller for every kappa in (0, 1e-2] at every beta (lemmas W, W~ >= 0 for every draw margin t > 0).',
            TRUST + ' Interval transfer rules of the lemma store (sx/core.py f_add/f_mul/f_inv/f_max, outward rounded) are trusted code.', '6/C06'),
    'C07': ('bounded symbolic execution of the real rate() (sx engine) + z3 QF_NRA per path; sat models replayed on float code',
            'For every model, the listed team shapes and every weak order, z3 shows on every path of the real rate() that the '
            'precision-weighted mu change cannot differ from zero (TM: cannot exceed the tied-pair margin) for any mu, sigma, beta, tau, kappa in the domain.',
            TRUST, '6/C07'),
}

NOT_YET = {}
assert True


def main():
    props = [json.loads(l) for l in open(os.path.join(ROOT, 'properties.jsonl'))]
    checks = []
    na = []
    for p in props:
        pid = p['id']
        if pid in CHECKS:
            tech, text, note, ref = CHECKS[pid]
            checks.append({
                'property_id': pid,
                'quick_cmd': f'./check {pid} --tier quick',
                'thorough_cmd': f'./check {pid} --tier thorough',
                'evidence_file': f'/verif/evidence/{pid}.json',
                'replay_cmd_template': f'./check {pid} --replay {{path}}',
                'engine': 'sx',
                'level_claimed': {'category': 'other', 'text': text, 'design_ref': 'DESIGN.md section ' + ref},
                'level_note': note,
                'technique': tech,
            })
        else:
            na.append({'property_id': pid, 'reason': NOT_YET.get(pid, 'check not built yet (work in progress; see DESIGN.md section 11)')})
    man = {
        'version': 1,
        'setup_cmd': './bin/setup',
        'hooks': {
            'guard': 'OPENSKILL_VERIF (unused: no source hooks are needed, all stubs are installed at harness level)',
            'enable': 'none needed: checks import /repo from the working tree and install stubs as module attributes inside the check process',
            'baseline_off_cmd': 'cd /repo && /venv/bin/python -m pytest -ra -q -p no:cacheprovider --timeout=900 --continue-on-collection-errors',
            'source_commits': [],
            'add_only': True,
        },
        'engines': [{
            'name': 'sx', 'path': '/verif/sx',
            'serves_properties': sorted(CHECKS),
            'kind_free_text': 'proxy-based symbolic executor for the real Python code (z3 Real / FP terms, fork by re-execution, '
                              'Ackermannised exp/sqrt/Phi/phi with eager congruence), one-shot z3 queries per path, float replay of every sat model',
        }],
        'checks': checks,
        'not_applicable': na,
        'notes': 'Solver-based checking of the real code; see DESIGN.md. Known findings: KNOWN_FINDINGS.txt.',
    }
    with open(os.path.join(ROOT, 'MANIFEST.json'), 'w') as f:
        json.dump(man, f, indent=1)
        f.write('\n')


if __name__ == '__main__':
    main()
