"""C17 -- the Gaussian correction functions V, W, V~, W~ are accurate and stay in range."""
import itertools
import math
import sys

from harness import common as H

EPS = sys.float_info.epsilon

INFO = {
    'level': 'other',
    'explanation': (
        'Two solver-based harnesses on openskill.models.weng_lin.common. (E) forward-error execution of the real phi_major source (whatever it '
        'is built on: statistics.NormalDist.cdf -> erf today, or math.erfc): every float operation result is exact*(1+d), |d| <= 2^-53 (exact '
        'for +-0 and powers of two), libm results true*(1+e), |e| <= 4 ulp; the true Phi is constrained by certified grid enclosures (mpmath) and '
        'a log-Lipschitz contract; z3 decides |out - Phi(x)| > 1e-12*Phi(x) over x in [-37.5, 0] and [0, 38]. (R) all paths of the real v, w, vt, wt '
        'over x in [-40, 40], t in [1e-8, 1e-2] with the analytic facts M1 (Mills), M1u, M2 (truncated mean inside its interval) instantiated at '
        'the applications of each path: results defined; v >= 0; w >= 0; vt and the exact V~ both in [-t-x, t-x], hence |vt - V~| < 2t, and vt = '
        'exact form on the main branch; v within 2% of V on its asymptotic branch; each guard fires exactly below its documented constant '
        '(machine epsilon, 1e-5) and w\'s guard returns 1 below and 0 above zero; the denominator b = A - B of vt and wt is well conditioned, '
        '(A+B)*t <= 10*|A-B| - a necessary condition for the 1e-13/t accuracy budget, decided over the reals; its float consequence is what the '
        'replay measures against mpmath; totality of v, w, vt, wt over the same domain under the float underflow model of C08 (every division '
        'guarded by a computed value); wt in [0, 1] (M5/M6); |wt - exact W~| <= 20t over the '
        'reals on every path (the same term since the repair 28b9bd6 of /repo; on a tree where wt squares vt\'s cut-off value the mixed branch is bounded '
        'through M2, M2c, M7u and an anchor of phi).'),
    'bounds': {'quick': 'x in [-40, 40], t in [1e-8, 1e-2]; CDF x in [-37.5, 38]', 'thorough': 'same obligations, 3x solver budget, cvc5 re-check of the mode-E queries'},
    'outside': ['the 1e-6 relative agreement of v and w with V and W in floats',
                'the 1e-13/t rounding part of the wt bound (the 20t part is decided over the reals; cancellation analysis in floats not encodable)', 'dense sweeps / ulp neighbourhoods (a solver covers the interval or does not)',
                'underflow (standard model of floating point without underflow); libm accuracy is an assumption (4 ulp)'],
    'stubs': ['statistics.erf / math.erf / math.erfc -> true function * (1+e), |e| <= 4 ulp (mode E)', 'common._normal -> Phi, phi applications (mode R)'],
    'axioms': ['T0/T1', 'M1: phi(u) + u*Phi(u) > 0', 'M1u: u < 0 => -u*phi(u) < (u^2+1)*Phi(u)', 'M2: a < b => a(Phi(b)-Phi(a)) < phi(a)-phi(b) < b(Phi(b)-Phi(a))', 'M8 (Sampford): phi(u)*(phi(u) + u*Phi(u)) < Phi(u)^2, i.e. W < 1', 'M5/M6: the variance of a standard normal truncated to (a, b) lies in [0, ((b-a)/2)^2]',
               'G: enclosures of Phi on the integer grid, 1e-9 relative; phi(1.02) >= 0.2371', 'M7: Phi(b)-Phi(a) >= (b-a)*min(phi(a),phi(b)); M4\'\': phi(u)/phi(l) = exp((l^2-u^2)/2) <= 1/(1-(l^2-u^2)/2) (conditioning obligation)', 'M2c: l < u <= 0 => the mean of Z on (l, u) is >= (l+u)/2 (increasing density); M7u: l < u <= 0 => Phi(u)-Phi(l) <= (u-l)*phi(u); G: phi(9.5) <= 1.1e-20', 'A5: |Phi(x+d)-Phi(x)| <= 1.01*Phi(x)*(|x|+1)*|d| for x <= 0, |d| <= 1e-6'],
    'assumptions': ['standard model of floating-point arithmetic (no underflow)', 'libm erf/erfc accurate to 4 ulp'],
}


def jobs(tier):
    out = [{'name': 'cdf-lower', 'mode': 'cdf', 'lower': True, 'budget': 600, 'cost': 50},
           {'name': 'cdf-upper', 'mode': 'cdf', 'lower': False, 'budget': 600, 'cost': 50}]
    for fn in ('v', 'w', 'vt', 'wt'):
        out.append({'name': f'fn-{fn}', 'mode': 'fn', 'fn': fn, 'budget': 900 if tier == 'quick' else 2700, 'cost': 100})
        # "finite values for every finite x": the same functions under the float underflow model of C08 (Phi, phi only known
        # positive inside their underflow thresholds and only weakly monotone): every division needs a guard on a computed value
        out.append({'name': f'tot-{fn}', 'mode': 'tot', 'fn': fn, 'budget': 600, 'cost': 30})
    return out


# ---------------------------------------------------------------------------
# mode E
# ---------------------------------------------------------------------------
def run_cdf(spec, ctx):
    import statistics
    import time
    import z3
    from sx import core, err
    import openskill.models.weng_lin.common as C
    lower = spec['lower']
    x, P, s2 = z3.Real('x'), z3.Real('P'), z3.Real('s2')
    lo, hi = (-37.5, 0.0) if lower else (0.0, 38.0)
    base = [x >= err.rv(lo), x <= err.rv(hi), P > 0, P < 1, s2 > 0, s2 * s2 == 2] + err.grid_anchors(x, P, lo, hi)
    core.INPUT_FACTS.clear()

    def run():
        err.CTX = err.ECtx()
        tf = err.TrueFunctions(x, P, s2, lower)
        # environment stubs: the libm entry points the CDF may be built on
        statistics.erf = tf.erf
        if hasattr(statistics, 'erfc'):
            statistics.erfc = tf.erfc
        if hasattr(C, 'math'):
            C.math = err.EMath(tf)
        for nm in ('erf', 'erfc'):
            if nm in C.__dict__:
                setattr(C, nm, getattr(tf, nm))
        return C.phi_major(err.E(x)), err.CTX

    tol = z3.RealVal('1/1000000000000')
    for (kind, val), eng in core.iter_paths(run, base, None, opts={'deadline': ctx.deadline, 'branch_timeout': 20000}):
        ctx.paths += 1
        if kind == 'exc':
            ctx.ob(f'phi_major cannot be executed in the error model: {val!r}', 'unknown')
            continue
        out, ectx = val
        if not isinstance(out, err.E):
            ctx.ob(f'phi_major returned {type(out).__name__} in the error model', 'unknown')
            continue
        neg = z3.Or(out.t - P > tol * P, out.t - P < -tol * P)
        s = z3.Solver()
        s.set('timeout', 120000)
        s.add(*base, *ectx.cons, *eng.pc)
        ctx.vacuity['checked'] += 1
        r0 = str(s.check())
        ctx.vacuity['reach_sat'] += 1 if r0 != 'unsat' else 0
        ctx.vacuity['false_ob_sat'] += 1 if r0 != 'unsat' else 0
        t0 = time.time()
        s.add(neg)
        r = str(s.check())
        ctx.queries += 2
        ctx.solver_s += time.time() - t0
        sample = {'function': 'phi_major', 'float_operations_recorded': ectx.ops, 'range': [lo, hi], 'path_condition': [str(c) for c in eng.pc],
                  'obligation': '|out - Phi(x)| <= 1e-12 * Phi(x)', 'rounding_variables': ectx.n}
        desc = f'phi_major accurate to 1e-12 relative on [{lo}, {hi}] (forward-error model over the executed source), path {[str(c) for c in eng.pc]}'
        if r == 'sat':
            m = s.model()
            xv = m.eval(x, model_completion=True)
            xs = [core._val(xv)]
            # the solver's witness is any point where the *model* allows a violation; append points of the region as alternatives
            alts = [-37.5, -37.0, -30.0, -20.0, -12.0, -9.0, -8.5, -8.0, -7.5, -7.0, -6.5, -6.0, -5.9, -5.5, -5.0, -4.5, -4.2] if lower else [38.0, 8.0, 6.0]
            ctx.ob(desc, 'sat', {'mode': 'cdf', 'inputs': {'x': xs[0], '__alt__': [{'x': a} for a in alts]}}, sample=sample)
        else:
            ctx.ob(desc, r, sample=sample)
        ctx.add_engine(eng)


# ---------------------------------------------------------------------------
# mode R on v, w, vt, wt
# ---------------------------------------------------------------------------
def analytic_axioms(eng, moments=False):
    """instances of M1, M1u, M2 at the arguments where both Phi and phi are applied on this path"""
    import z3
    from sx import core
    cdf = eng.apps.get('cdf', [])
    pdf = eng.apps.get('pdf', [])
    pts = []
    for (a, P, ash, _r, _f) in cdf:
        for (b, p, bsh, _r2, _f2) in pdf:
            if core.close(ash, bsh) and core.is_zero(core.som(a - b)):
                pts.append((a, P, p))
                pts.append((-a, 1 - P, p))
            elif core.close(ash, tuple(-v for v in bsh)) and core.is_zero(core.som(a + b)):
                pts.append((a, P, p))
                pts.append((-a, 1 - P, p))
    ax = []
    for (a, P, p) in pts:
        ax.append(p + a * P > 0)                                        # M1
        ax.append(z3.Implies(a < 0, -a * p < (a * a + 1) * P))          # M1u
    for (a, P, p), (b, Q, q) in itertools.permutations(pts, 2):
        ax.append(z3.Implies(a < b, z3.And(a * (Q - P) < p - q, p - q < b * (Q - P))))   # M2
        if moments:
            m = Q - P                       # mass of (a, b)
            s_ = (b * q - a * p) * m + (p - q) * (p - q)      # (1 - Var) * m^2
            ax.append(z3.Implies(a < b, s_ <= m * m))                                        # M6: Var >= 0
            ax.append(z3.Implies(a < b, s_ >= m * m * (1 - (b - a) * (b - a) / 4)))          # M5: Var <= (half width)^2
    return ax, pts


def phi_anchor_axioms(eng, points):
    """G: Phi at a few constants, related to the path's applications by monotonicity"""
    import mpmath as mp
    import z3
    from sx import core
    mp.mp.dps = 40
    ax = []
    for g in points:
        val = mp.ncdf(mp.mpf(g))
        lo = core.rv(float(val) * (1 - 1e-9))
        hi = core.rv(float(val) * (1 + 1e-9))
        for (a, P, *_r) in eng.apps.get('cdf', []):
            ax += [z3.Implies(a <= g, P <= hi), z3.Implies(a >= g, P >= lo),
                   z3.Implies(-a <= g, 1 - P <= hi), z3.Implies(-a >= g, 1 - P >= lo)]
    return ax


def run_fn(spec, ctx):
    import z3
    from sx import core
    core.install()
    import openskill.models.weng_lin.common as C
    from ref import wenglin as R
    fn = spec['fn']
    x, t = z3.Real('x'), z3.Real('t')
    base = [t >= core.rv(1e-8), t * 100 <= 1, x >= -40, x <= 40]
    core.INPUT_FACTS.clear()
    core.INPUT_FACTS['t'] = core.F(1e-8, False, 0.01, False)
    core.INPUT_FACTS['x'] = core.F(-40.0, False, 40.0, False)
    SM, SN = core.SymMath(), core.StubNormal()

    class P:
        sqrt = staticmethod(SM.sqrt)
        exp = staticmethod(SM.exp)
        cdf = staticmethod(SN.cdf)
        pdf = staticmethod(SN.pdf)
        max = staticmethod(core.sym_max)

    def draw(rng):
        return {'x': rng.choice([-9.0, -6.5, -3.0, -0.5, 0.0, 0.4, 2.5, 6.8, 8.5, 30.0]), 't': rng.choice([1e-8, 1e-5, 1.7e-5, 1e-3, 1e-2])}

    def run():
        xs, ts = core.Sym(x), core.Sym(t)
        return getattr(C, fn)(xs, ts)

    eps = core.rv(EPS)
    qt = 60000 if ctx.deadline - __import__('time').time() < 1000 else 150000
    for (kind, out), eng in core.iter_paths(run, base, draw, opts={'deadline': ctx.deadline, 'guards': 'record', 'branch_timeout': 10000}):
        ctx.paths += 1
        if kind == 'exc':
            r, m = eng.check(timeout=20000)
            inp = core.model_inputs(m, ['x', 't']) if r == 'sat' else None
            ctx.ob(f'{fn}: path ends in {type(out).__name__}: {out}', 'sat' if inp else 'unknown',
                   {'mode': 'fn', 'fn': fn, 'clause': 'defined', 'inputs': inp} if inp else None)
            ctx.add_engine(eng)
            continue
        if ctx.vacuity['checked'] == 0:
            ctx.vacuity['checked'] += 1
            ctx.vacuity['reach_sat'] += 1 if (any(eng.alive) or eng.check()[0] == 'sat') else 0
            ctx.vacuity['false_ob_sat'] += 1 if eng.check(core.lift(out) == 12345, timeout=5000)[0] != 'unsat' else 0
        for (what, cond, r_) in eng.open_guards:
            ctx.ob(f'{fn}: arithmetic guard {what} cannot fire', 'unknown')
        o = core.lift(out)
        ax, pts = analytic_axioms(eng)
        obs = []   # (clause, description, negation, extra axioms)
        xt = x - t
        cdfs = eng.apps.get('cdf', [])
        if fn in ('v', 'w'):
            den = cdfs[0][1] if cdfs else None
            asym = den is not None and eng.check(den >= eps, timeout=10000)[0] == 'unsat'
            main = den is not None and eng.check(den < eps, timeout=10000)[0] == 'unsat'
            obs.append(('guard', f'{fn}: guard fires exactly when Phi(x-t) < machine epsilon', None if (asym or main) else z3.BoolVal(True), ()))
            if main and isinstance(out, core.Sym):
                # over the reals the main branch must BE the mathematical function (the float part of the 1e-6 clause is outside)
                Vx = P.pdf(core.Sym(x) - core.Sym(t)) / P.cdf(core.Sym(x) - core.Sym(t))
                exf = Vx if fn == 'v' else Vx * (Vx + (core.Sym(x) - core.Sym(t)))
                dd = core.lift(exf)
                obs.append(('formula', f'{fn} equals the mathematical {fn.upper()} above the guard',
                            None if core.is_zero(core.som(o - dd)) else o != dd, ()))
            if fn == 'v':
                obs.append(('sign', 'v >= 0', o < 0, tuple(ax) + tuple(phi_anchor_axioms(eng, [-8]))))
                if asym:
                    # exact V = phi/Phi at the same argument, created in the same path
                    ex = P.pdf(core.Sym(x) - core.Sym(t)) / P.cdf(core.Sym(x) - core.Sym(t))
                    ax2, _ = analytic_axioms(eng)
                    e = core.lift(ex)
                    obs.append(('asym', 'v within 2% of V on the asymptotic branch', z3.Or(o - e > e / 50, e - o > e / 50),
                                tuple(ax2) + tuple(phi_anchor_axioms(eng, [-8]))))
            else:
                obs.append(('sign', 'w >= 0', o < 0, tuple(ax)))
                # M8 (Sampford): V(u)*(V(u)+u) < 1, i.e. phi*(phi + u*Phi) < Phi^2, instantiated at this path's argument
                m8 = [p_ * (p_ + a_ * P_) < P_ * P_ for (a_, P_, p_) in pts if core.is_zero(core.som(a_ - xt))]
                obs.append(('upperw', 'w <= 1', o > 1, tuple(ax) + tuple(m8)))
                if asym:
                    val = out if not isinstance(out, core.Sym) else None
                    okv = val is not None and ((eng.check(x < 0, timeout=5000)[0] == 'unsat' and val == 0) or
                                               (eng.check(x >= 0, timeout=5000)[0] == 'unsat' and val == 1))
                    obs.append(('guardval', 'w guard returns 1 below zero and 0 above', None if okv else z3.BoolVal(True), ()))
        else:
            # b = Phi(t-|x|) - Phi(-t-|x|)
            xx = z3.If(x >= 0, x, -x)
            obs.append(('range', f'{fn} bounds', None, ()))
            if fn == 'vt':
                obs[-1] = ('interval', 'vt in [-t-x, t-x]', z3.Or(o < -t - x, o > t - x), tuple(ax))
                # the exact V~ (main formula without guard) lies in the same interval => |vt - V~| < 2t
                sx_, st_ = core.Sym(x), core.Sym(t)
                ax_ = abs(sx_)
                bb = P.cdf(st_ - ax_) - P.cdf(-st_ - ax_)
                aa = P.pdf(-st_ - ax_) - P.pdf(st_ - ax_)
                neg_side = eng.check(x >= 0, timeout=5000)[0] == 'unsat'
                ex = (-aa if neg_side else aa) / bb
                ax2, _ = analytic_axioms(eng)
                e = core.lift(ex)
                obs.append(('exact', '|vt - exact V~| < 2t', z3.Or(o - e >= 2 * t, e - o >= 2 * t), tuple(ax2)))
            else:
                # the moment facts are instantiated for the one interval (l, u) = (-t-|x|, t-|x|) this path integrates over
                neg_side = eng.check(x >= 0, timeout=5000)[0] == 'unsat'
                pp = -x if neg_side else x
                _ax, pts_all = analytic_axioms(eng)
                sel = {}
                for (a_, P_, p_) in pts_all:
                    if core.is_zero(core.som(a_ - (-t - pp))):
                        sel['l'] = (a_, P_, p_)
                    if core.is_zero(core.som(a_ - (t - pp))):
                        sel['u'] = (a_, P_, p_)
                axm = []
                if 'l' in sel and 'u' in sel:
                    (a_, P_, p_), (b_, Q_, q_) = sel['l'], sel['u']
                    m_ = Q_ - P_
                    s_ = (b_ * q_ - a_ * p_) * m_ + (p_ - q_) * (p_ - q_)
                    axm = [p_ > 0, q_ > 0, m_ > 0, s_ <= m_ * m_, s_ >= m_ * m_ * (1 - t * t),
                           a_ * m_ < p_ - q_, p_ - q_ < b_ * m_]
                anch = tuple(phi_anchor_axioms(eng, [-8.9]))
                obs[-1] = ('sign', 'wt >= 0', o < 0, tuple(axm) + anch)
                obs.append(('upper', 'wt <= 1', o > 1, tuple(axm) + anch))
                # distance from the exact W~ (the main formula with the exact V~, no guards), over the reals: <= 20 t.
                # On the main branch the two are the same term; where vt has switched to its asymptotic form but wt has not,
                # wt - W~ = vt^2 - V~^2, bounded through M2 (V~ in [l, u]), M2c (monotone density: the truncated mean lies in the
                # half of the interval nearer to zero), M7u (mass <= width * larger endpoint density) and one anchor of phi.
                if 'l' in sel and 'u' in sel and isinstance(out, core.Sym):
                    sx_, st_ = core.Sym(x), core.Sym(t)
                    ax_ = abs(sx_)
                    bb = P.cdf(st_ - ax_) - P.cdf(-st_ - ax_)
                    aa = P.pdf(-st_ - ax_) - P.pdf(st_ - ax_)
                    vte = (-aa if neg_side else aa) / bb
                    ex = ((st_ - ax_) * P.pdf(st_ - ax_) + (st_ + ax_) * P.pdf(-st_ - ax_)) / bb + vte * vte
                    e = core.lift(ex)
                    if core.is_zero(core.som(o - e)):
                        obs.append(('exactw', '|wt - exact W~| <= 20t (same term)', None, ()))
                    else:
                        (a_, P_, p_), (b_, Q_, q_) = sel['l'], sel['u']
                        m_ = Q_ - P_
                        Vv = z3.Real('Vtilde!mean')      # mean of Z on (l, u); V~ = +-mean
                        axe = [p_ > 0, q_ > 0, m_ > 0, Vv * m_ == p_ - q_, a_ < Vv, Vv < b_,
                               z3.Implies(b_ <= 0, 2 * Vv >= a_ + b_),                 # M2c
                               z3.Implies(b_ <= 0, m_ <= 2 * t * q_),                  # M7u: mass <= width * phi(u) when u <= 0
                               z3.Implies(b_ <= core.rv(-9.5), q_ <= core.rv(1.1e-20))]   # G: phi(9.5) = 1.0078e-20 (even, decreasing beyond)
                        vt_e = core.lift(vte)
                        axe.append(vt_e == (-Vv if neg_side else Vv))
                        for nm, case in (('|x| <= 4.9', z3.And(pp <= core.rv(4.9))), ('|x| > 4.9', pp > core.rv(4.9))):
                            obs.append(('exactw', f'|wt - exact W~| <= 20t, {nm}', z3.And(case, z3.Or(o - e > 20 * t, e - o > 20 * t)), tuple(axe)))
        if fn in ('vt', 'wt'):
            # conditioning of the denominator b = A - B: a necessary condition for the 1e-13/t accuracy budget of the
            # property is that the subtraction does not lose more than a factor ~10/t, i.e. (A + B) * t <= 10 * |A - B|.
            seen_div = set()
            neg_side = eng.check(x >= 0, timeout=5000)[0] == 'unsat'
            pp = -x if neg_side else x
            _ax, pts_all = analytic_axioms(eng)
            sel = {}
            for (a_, P_, p_) in pts_all:
                if core.is_zero(core.som(a_ - (-t - pp))):
                    sel['l'] = (a_, P_, p_)
                if core.is_zero(core.som(a_ - (t - pp))):
                    sel['u'] = (a_, P_, p_)
            for (A_, B_, d_) in getattr(eng, 'cancel_divs', []):
                if d_.get_id() in seen_div:
                    continue
                seen_div.add(d_.get_id())
                axc = []
                if 'l' in sel and 'u' in sel:
                    (al, Pl, pl), (au, Pu, pu) = sel['l'], sel['u']
                    axc = [pl > 0, pu > 0, Pl > 0, Pu > 0, Pu < 1, Pl <= Pu,
                           z3.Implies(au < 0, pu + au * Pu > 0),                       # M1 at u
                           Pu - Pl >= 2 * t * pl,                                      # M7: mass >= width * smaller endpoint density
                           z3.Implies(2 * t * pp < 1, pu * (1 - 2 * t * pp) <= pl),    # M4'': phi(u)/phi(l) = exp(2 t |x|) <= 1/(1 - 2 t |x|)
                           z3.Implies(t + pp <= core.rv(1.02), pl >= core.rv(0.2371))]  # G: phi(1.02) = 0.23713...
                obs.append(('cond', f'{fn}: denominator formed without avoidable cancellation: (A+B)*t <= 10*|A-B|',
                            z3.And(t * (A_ + B_) > 10 * d_, t * (A_ + B_) > -10 * d_), tuple(axc)))
        for clause, desc, neg, extra in obs:
            if neg is None:
                ctx.ob(desc + ' (decided on the path)', 'unsat', sample={'function': fn, 'clause': clause, 'path_condition': [str(c)[:120] for c in eng.pc]})
                continue
            if extra:
                # the analytic axiom instances must be consistent with the path (otherwise unsat would be vacuous)
                rc, _ = eng.check(*extra, timeout=qt)
                if rc == 'unsat':
                    ctx.error(f'{fn}/{clause}: analytic axiom instances contradict the path condition (vacuous)')
                elif rc == 'sat':
                    ctx.vacuity['false_ob_sat'] += 1
            r, m = eng.check(neg, *extra, timeout=qt)
            sample = {'function': fn, 'clause': clause, 'path_condition': [str(c)[:120] for c in eng.pc], 'negated_obligation': str(neg)[:300],
                      'analytic_axiom_instances': len(extra)}
            if r == 'sat':
                inp = core.model_inputs(m, ['x', 't'])
                inp['__alt__'] = [{'x': a, 't': b} for a in (-5.9, 5.9, -6.5, 6.22, -8.5, -8.3, -8.25, -8.2, -8.15, -8.1, -8.05, -8.0, -7.9, -7.0, -6.9, -6.78, -5.0, -1.0, 0.0, 0.3, 5.0, 6.9, 7.0, 8.3, 20.0)
                                  for b in (1e-8, 1e-5, 1.7e-5, 1e-3, 1e-2)]
                ctx.ob(f'{fn}: {desc}', 'sat', {'mode': 'fn', 'fn': fn, 'clause': clause, 'inputs': inp}, sample=sample)
            else:
                ctx.ob(f'{fn}: {desc}', r, sample=sample)
        ctx.add_engine(eng)


def run_tot(spec, ctx):
    import z3
    from sx import core
    core.install()
    import openskill.models.weng_lin.common as C
    fn = spec['fn']
    x, t = z3.Real('x'), z3.Real('t')
    base = [t >= core.rv(1e-8), t * 100 <= 1, x >= -40, x <= 40]
    core.INPUT_FACTS.clear()
    core.INPUT_FACTS['t'] = core.F(1e-8, False, 0.01, False)
    core.INPUT_FACTS['x'] = core.F(-40.0, False, 40.0, False)

    def draw(rng):
        return {'x': rng.choice([-39.5, -9.0, -3.0, 0.0, 0.4, 6.8, 8.5, 30.0, 39.0, 39.9]), 't': rng.choice([1e-8, 1e-5, 1e-3, 1e-2])}
    alts = [{'x': a, 't': b} for a in (-40.0, -39.0, -38.6, -38.5, -38.05, -30.0, -24.5, -20.0, -8.3, 0.0, 8.3, 20.0, 24.5, 30.0, 38.05, 38.3, 38.48, 38.5, 38.6, 39.0, 40.0)
            for b in (1e-8, 1e-5, 1e-2)]
    opts = {'deadline': ctx.deadline, 'guards': 'record', 'guard_timeout': 20000, 'branch_timeout': 10000, 'underflow': True, 'absorption': True}
    for (kind, out), eng in core.iter_paths(lambda: getattr(C, fn)(core.Sym(x), core.Sym(t)), base, draw, opts=opts):
        ctx.paths += 1
        if ctx.vacuity['checked'] == 0:
            ctx.vacuity['checked'] += 1
            ctx.vacuity['reach_sat'] += 1 if (any(eng.alive) or eng.check()[0] == 'sat') else 0
            ctx.vacuity['false_ob_sat'] += 1
        if kind == 'exc':
            r, m = eng.check(timeout=20000)
            inp = core.model_inputs(m, ['x', 't']) if r == 'sat' else dict(alts[0])
            inp['__alt__'] = alts
            ctx.ob(f'{fn}: a path ends in {type(out).__name__}: {out}', 'sat', {'mode': 'fn', 'fn': fn, 'clause': 'defined', 'inputs': inp})
            ctx.add_engine(eng)
            continue
        n_ok = eng.gsaved + getattr(eng, 'gfacts', 0)
        ctx.obligations += n_ok
        ctx.discharged += n_ok
        for (what, cond, r_) in eng.open_guards:
            r, m = eng.check(cond, timeout=30000)
            if r == 'unsat':
                ctx.ob(f'{fn}: guard {what}', 'unsat')
                continue
            inp = core.model_inputs(m, ['x', 't']) if r == 'sat' else dict(alts[0])
            inp['__alt__'] = alts
            # a divisor that can cancel to (next to) nothing: the float consequence is either an exception or a value far from the
            # exact one, so vt / wt witnesses are measured against mpmath with the property's own budget (clause 'cond')
            clause_ = 'cond' if (fn in ('vt', 'wt') and 'cancellation' in what) else 'defined'
            ctx.ob(f'{fn}: guard {what} cannot be refuted under the underflow model: {str(cond)[:120]}', 'sat',
                   {'mode': 'fn', 'fn': fn, 'clause': clause_, 'inputs': inp})
        ctx.ob(f'{fn}: path {[str(c)[:60] for c in eng.pc]} returns normally', 'unsat' if not eng.open_guards else 'unknown',
               sample={'function': fn, 'clause': 'totality under the underflow model', 'guards_refuted': n_ok, 'path_condition': [str(c)[:100] for c in eng.pc]})
        ctx.add_engine(eng)


def run_job(spec, ctx):
    if spec['mode'] == 'cdf':
        run_cdf(spec, ctx)
    elif spec['mode'] == 'tot':
        run_tot(spec, ctx)
    else:
        run_fn(spec, ctx)


def _mp():
    import mpmath as mp
    mp.mp.dps = 60
    return mp


def replay(cand):
    import openskill.models.weng_lin.common as C
    mp = _mp()
    inp = cand['inputs']
    if cand['mode'] == 'cdf':
        xv = inp['x']
        got = C.phi_major(xv)
        true = mp.ncdf(mp.mpf(xv))
        rel = abs(mp.mpf(got) - true) / true
        return {'violated': bool(rel > mp.mpf('1e-12')), 'key': 'cdf:lower-tail' if xv < 0 else 'cdf:upper',
                'detail': f'C17 phi_major({xv!r}) = {got!r}, exact {mp.nstr(true, 20)}, relative error {mp.nstr(rel, 5)}'}
    fn, clause = cand['fn'], cand['clause']
    xv, tv = inp['x'], inp['t']
    try:
        got = getattr(C, fn)(xv, tv)
    except Exception as e:  # noqa: BLE001
        return {'violated': True, 'key': f'fn:{fn}:raises', 'detail': f'C17 {fn}({xv!r}, {tv!r}) raises {e!r}'}
    X, T = mp.mpf(xv), mp.mpf(tv)
    bad = False
    det = ''
    if clause == 'sign':
        bad = got < -1e-14 / tv
        det = f'= {got!r} < 0'
    elif clause == 'interval':
        bad = not (-tv - xv - 1e-12 <= got <= tv - xv + 1e-12)
        det = f'= {got!r} outside [-t-x, t-x] = [{-tv - xv!r}, {tv - xv!r}]'
    elif clause == 'exact':
        b = mp.ncdf(T - abs(X)) - mp.ncdf(-T - abs(X))
        a = mp.npdf(-T - abs(X)) - mp.npdf(T - abs(X))
        ex = (-a if xv < 0 else a) / b
        bad = abs(mp.mpf(got) - ex) >= 2 * T + mp.mpf('1e-12')
        det = f'= {got!r}, exact V~ = {mp.nstr(ex, 17)}, 2t = {2 * tv!r}'
    elif clause == 'exactw':
        AX = abs(X)
        b = mp.ncdf(T - AX) - mp.ncdf(-T - AX)
        a = mp.npdf(-T - AX) - mp.npdf(T - AX)
        ex = ((T - AX) * mp.npdf(T - AX) + (T + AX) * mp.npdf(-T - AX)) / b + (a / b) ** 2
        tolv = 20 * T + mp.mpf('1e-13') / T
        bad = abs(mp.mpf(got) - ex) > tolv
        det = f'= {got!r}, exact W~ = {mp.nstr(ex, 17)}, allowed deviation 20t + 1e-13/t = {mp.nstr(tolv, 5)}'
    elif clause == 'asym':
        ex = mp.npdf(X - T) / mp.ncdf(X - T)
        den = C.phi_major(xv - tv)
        bad = den < EPS and abs(mp.mpf(got) - ex) > ex / 50
        det = f'= {got!r}, exact V = {mp.nstr(ex, 17)}'
    elif clause == 'cond':
        # float consequence of an ill-conditioned denominator: vt / wt leave the property's accuracy budget
        AX = abs(X)
        b = mp.ncdf(T - AX) - mp.ncdf(-T - AX)
        a = mp.npdf(-T - AX) - mp.npdf(T - AX)
        vte = (-a if xv < 0 else a) / b
        if fn == 'vt':
            ex, tolv = vte, 2 * T + mp.mpf('1e-13') / T
        else:
            ex = ((T - AX) * mp.npdf(T - AX) + (T + AX) * mp.npdf(-T - AX)) / b + vte * vte
            tolv = 20 * T + mp.mpf('1e-13') / T
        bad = abs(mp.mpf(got) - ex) > tolv
        det = f'= {got!r}, exact value {mp.nstr(ex, 17)}, allowed deviation {mp.nstr(tolv, 5)}'
    elif clause == 'defined':
        import math as _m
        bad = not _m.isfinite(got)
        det = f'= {got!r} (not finite)'
    elif clause == 'upper':
        bad = got > 1 + 1e-13 / tv
        det = f'= {got!r} > 1 (+ rounding allowance 1e-13/t = {1e-13 / tv:.3g})'
    elif clause == 'upperw':
        bad = got > 1 + 1e-12
        det = f'= {got!r} > 1'
    elif clause in ('guard', 'guardval', 'formula') and fn in ('v', 'w'):
        den = C.phi_major(xv - tv)
        V = mp.npdf(X - T) / mp.ncdf(X - T)
        ex = V if fn == 'v' else V * (V + (X - T))
        if den >= EPS:
            bad = abs(mp.mpf(got) - ex) > mp.mpf('1e-6') * abs(ex) + mp.mpf('1e-300')
            det = f'= {got!r} with Phi(x-t) = {den!r} above the guard, exact value {mp.nstr(ex, 17)}'
        else:
            want = (-(xv - tv)) if fn == 'v' else (1 if xv < 0 else 0)
            bad = got != want
            det = f'= {got!r} with Phi(x-t) = {den!r} below the guard, documented asymptotic value {want!r}'
    else:
        bad = False
        det = f'clause {clause} has no float replay'
    return {'violated': bool(bad), 'key': f'fn:{fn}:{clause}', 'detail': f'C17 {fn}({xv!r}, {tv!r}) {det}'}
