"""shared machinery for the prediction properties C09-C12 (mode R on predict_win/draw/rank)"""
import itertools

from harness import common as H

OPS = ('predict_win', 'predict_draw', 'predict_rank')


def team_names(shape, tag=''):
    return [[(H.pname('mu' + tag, i, j), H.pname('sg' + tag, i, j)) for j in range(n)] for i, n in enumerate(shape)]


def pred_domain(shape, sigma_zero_ok=True):
    """beta > 0, |mu| <= 20 beta, 0 <= sigma <= 10 beta (sigma -> 0 is inside for the predictions)"""
    import z3
    beta = z3.Real('beta')
    base = [beta > 0]
    for i, n in enumerate(shape):
        for j in range(n):
            mu, sg = z3.Real(H.pname('mu', i, j)), z3.Real(H.pname('sg', i, j))
            base += [mu >= -20 * beta, mu <= 20 * beta, sg <= 10 * beta, sg >= 0]
    return base


def set_pred_facts(shape):
    from sx import core
    core.INPUT_FACTS.clear()
    core.INPUT_FACTS['beta'] = core.F(0.0, True)
    for i, n in enumerate(shape):
        for j in range(n):
            core.INPUT_FACTS[H.pname('sg', i, j)] = core.F(0.0, False)


def pred_draw(shape, extra=None):
    def draw(rng):
        b = rng.choice([25 / 6, 1.0, 0.01, 300.0])
        e = {'beta': b}
        for i, n in enumerate(shape):
            for j in range(n):
                e[H.pname('mu', i, j)] = rng.uniform(-20 * b, 20 * b) if rng.random() < 0.3 else rng.uniform(-3 * b, 3 * b)
                e[H.pname('sg', i, j)] = b * rng.choice([0.0, 1e-3, 0.1, 1, 2, 9])
        if extra:
            extra(rng, e)
        return e
    return draw


def build_teams(m, shape, mk, perm=None, overrides=None):
    """teams from symbols; `overrides` maps (i, j) -> (mu value, sigma value)"""
    teams = []
    for i, n in enumerate(shape):
        row = []
        for j in range(n):
            if overrides and (i, j) in overrides:
                mu, sg = overrides[(i, j)]
            else:
                mu, sg = mk(H.pname('mu', i, j)), mk(H.pname('sg', i, j))
            row.append(m.rating(mu, sg))
        teams.append(row)
    if perm is not None:
        teams = [teams[p] for p in perm]
    return teams


def call(m, op, teams):
    r = getattr(m, op)(teams)
    if op == 'predict_rank':
        return [list(x) for x in r]
    if op == 'predict_win':
        return list(r)
    return r


def pred_names(shape):
    return ['beta'] + [x for i, n in enumerate(shape) for j in range(n) for x in (H.pname('mu', i, j), H.pname('sg', i, j))]


def float_teams(key, shape, inp, perm=None, overrides=None):
    Model = H.model_class(key)
    m = Model(beta=inp['beta'])
    return m, build_teams(m, shape, H.float_maker(inp), perm, overrides)


def terms_equal(a, b):
    """None if syntactically identical, else the z3 disequality"""
    from sx import core
    ta, tb = core.lift(a), core.lift(b)
    if ta.eq(tb) or core.is_zero(core.som(ta - tb)):
        return None
    return ta != tb
