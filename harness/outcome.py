"""Mode-K exploration shared by C02 and C03: the real rate() runs with a fully
symbolic rank/score vector (values z3 Reals, Python kinds z3 Int tags) on a
concrete game with distinct, generic (mu, sigma) per player.  Every path ends
with the weak order W of the vector fully decided (the harness forks on the
comparisons the code left open), so the paths partition the space of all
finite int/float/bool vectors of that length."""
import z3

from harness import common as H

KIND_MENUS = {'all': (0, 1, 2), 'int': (0,), 'float': (1,), 'intfloat': (0, 1)}


GAME = {'variant': 'distinct'}


def game_values(shape):
    """(mu, sigma, name) per player: distinct generic values, or - variant 'fresh' - the same default values for
    everybody (value-equal ratings and teams: exposes bookkeeping done with == / list.index instead of identity)"""
    if GAME['variant'] == 'fresh':
        return [[(25.0, 25.0 / 3.0, f"p{i}_{j}") for j in range(n)] for i, n in enumerate(shape)]
    vals = []
    c = 0
    for i, n in enumerate(shape):
        row = []
        for j in range(n):
            # deliberately NOT monotone inside a team (neither in mu nor in sigma): a result that comes back sorted is a mismatch
            row.append((20.0 + 3.7 * i + 1.3 * ((2 * j + 1) % 3) - 0.61 * c + 2.9 * (c % 2), 3.0 + 0.9 * ((c * 7 + 3) % 5) + 0.13 * i, f"p{i}_{j}"))
            c += 1
        vals.append(row)
    return vals


def build_concrete(key, shape, **cfg):
    Model = H.model_class(key)
    m = Model(**cfg)
    teams = [[m.rating(mu, sg, name) for (mu, sg, name) in row] for row in game_values(shape)]
    return m, teams


def dense(vals):
    """dense ranks of a list of python numbers (lower = better)"""
    d = sorted(set(vals))
    return [d.index(v) for v in vals]


def draw_ranks(n, kinds):
    def draw(rng):
        e = {}
        for i in range(n):
            k = rng.choice(kinds)
            e[f'k{i}'] = k
            if k == 2:
                e[f'r{i}'] = float(rng.choice([0, 1]))
            elif k == 0:
                e[f'r{i}'] = float(rng.choice([-2, 0, 1, 1, 2, 3, 7]))
            else:
                e[f'r{i}'] = rng.choice([-1.5, 0.0, 0.5, 1.0, 2.0, 2.5, 3.0])
        return e
    return draw


def weak_order_by_forking(terms, shadows):
    """decide the weak order of the symbolic values on this path, forking where the path leaves it open"""
    from sx import core
    eng = core.ENG
    n = len(terms)
    rel = {}
    for i in range(n):
        for j in range(i + 1, n):
            sh_lt = [(a < b, True) for a, b in zip(shadows[i], shadows[j])]
            sh_eq = [(a == b, True) for a, b in zip(shadows[i], shadows[j])]
            if eng.branch(terms[i] < terms[j], sh_lt):
                rel[(i, j)] = -1
            elif eng.branch(terms[i] == terms[j], sh_eq):
                rel[(i, j)] = 0
            else:
                rel[(i, j)] = 1
    below = []
    for i in range(n):
        cnt = 0
        reps = []
        for j in range(n):
            if j == i:
                continue
            r = rel[(j, i)] if j < i else -rel[(i, j)]
            if r == -1:  # j strictly better than i
                # count distinct classes
                if not any((rel[(min(j, q), max(j, q))] == 0) for q in reps):
                    reps.append(j)
                    cnt += 1
        below.append(cnt)
    return below


def iter_outcomes(spec, ctx, cfg=None, call=None):
    """yields per path: dict(kind='ok'|'exc', m, teams, before, out, W, eng, ranks_syms)"""
    from sx import core, kinds
    core.install()
    key, shape, selector = spec['model'], tuple(spec['shape']), spec['selector']
    GAME['variant'] = spec.get('game', 'distinct')
    menu = KIND_MENUS[spec.get('kinds', 'all')]
    n = len(shape)
    base = []
    for i in range(n):
        base += kinds.kind_domain(z3.Real(f'r{i}'), z3.Int(f'k{i}'), menu)
    core.INPUT_FACTS.clear()

    def run():
        m, teams = build_concrete(key, shape, **(cfg or {}))
        ids = [[(p.id, p.name) for p in t] for t in teams]
        objs = [list(t) for t in teams]
        before = [[(p.mu, p.sigma) for p in t] for t in teams]
        d0 = dict(m.__dict__)
        rk = [kinds.KSym(z3.Real(f'r{i}'), z3.Int(f'k{i}')) for i in range(n)]
        exc = None
        out = None
        try:
            out = m.rate(teams, **{selector: list(rk)}, **(call or {}))
        except (TypeError, ValueError, ZeroDivisionError, OverflowError, KeyError, IndexError, AttributeError) as e:
            exc = e
        terms = [(-r.t if selector == 'scores' else r.t) for r in rk]
        shadows = [tuple((-x if selector == 'scores' else x) for x in r.s) for r in rk]
        W = weak_order_by_forking(terms, shadows)
        return dict(m=m, teams=teams, objs=objs, ids=ids, before=before, d0=d0, out=out, exc=exc, W=W)

    stats = {}
    # float_rounding: +, -, * on float-kinded rank values are only known up to half an ulp (absorption)
    # int_rounding: float() of an int-kinded value above 2^53 is only known up to half an ulp (models precision loss)
    opts = {'deadline': ctx.deadline, 'branch_timeout': 10000, 'int_rounding': True, 'float_rounding': True}
    try:
        for (kind, val), eng in core.iter_paths(run, base, draw_ranks(n, menu), opts=opts, stats=stats):
            yield kind, val, eng
            ctx.add_engine(eng)
    finally:
        ctx.add_stats(stats)


def witness_ranks(eng, n):
    """a concrete rank/score vector (python values of the right kinds) satisfying the path"""
    from sx import kinds
    r, m = eng.check(timeout=20000)
    if r != 'sat':
        return None
    return [kinds.concretise(m, f'r{i}', f'k{i}') for i in range(n)]


def nasty_vectors(n):
    """rank/score vectors that are hard for a solver model to hit exactly but that break value-losing conversions:
    integers that collide when rounded to double, values closer than 1e-9 relative, near-integers"""
    base = [2 ** 53, 2 ** 53 + 1, 2 ** 53 + 2, 10 ** 17, 10 ** 17 + 1, -(2 ** 53) - 1]
    out = []
    out.append([base[i % 3] for i in range(n)][::-1])
    out.append([base[i % 3] for i in range(n)])
    out.append([10 ** 9 + i for i in range(n)])
    out.append([10 ** 9 + i for i in range(n)][::-1])
    out.append([1.0 + i * 2.0 ** -40 for i in range(n)])
    out.append([1.0 + i * 2.0 ** -40 for i in range(n)][::-1])
    out.append([1 + 0.25 * i for i in range(n)][::-1])
    out.append([0.3 * i for i in range(n)][::-1])
    out.append([-0.5 * i for i in range(n)])
    # bools (an int subclass: exact-type tests treat them differently), with ties among them and mixed with ints / floats
    out.append([bool(i % 2) for i in range(n)])
    out.append([True] * n)
    out.append([False] + [True] * (n - 1))
    out.append(([True, 1.0, 2, 1] * n)[:n])
    out.append(([1, True, 0.0, False] * n)[:n])
    # absorption: small distinct values next to a huge one collapse under +/- with the huge one
    out.append([1e18] + [float(n - i) for i in range(1, n)])
    out.append([float(i + 1) for i in range(n - 1)] + [1e18])
    out.append([10 ** 18] + [1.5 + i for i in range(n - 1)])
    out.append([1.0] + [i * 1e-17 for i in range(n - 1, 0, -1)])
    out.append([-1e18] + [float(i) for i in range(1, n)])
    out.append([float(i) for i in range(1, n)] + [-1e18])
    return [{'vals': encode_vals(v)} for v in out]


def encode_vals(vals):
    return [{'k': type(v).__name__, 'v': (bool(v) if isinstance(v, bool) else v)} for v in vals]


def decode_vals(enc):
    out = []
    for e in enc:
        if e['k'] == 'bool':
            out.append(bool(e['v']))
        elif e['k'] == 'int':
            out.append(int(e['v']))
        else:
            out.append(float(e['v']))
    return out
