"""C13 -- malformed calls are rejected with TypeError/ValueError before any side effect."""
from harness import common as H

INFO = {
    'level': 'other',
    'explanation': (
        'Mode K of the sx engine with lazy kind proxies: teams, each team, each player, ranks, scores and each of their elements are objects '
        'whose kind is a z3 Int tag over a finite menu of representatives; the first operation the real code performs on one (isinstance, len, '
        'bool, iteration, indexing, attribute access, deepcopy) forks over its menu. Validation stops at the first bad position, so later positions '
        'stay free variables: one path covers every combination of kinds at the positions the code never looked at. The paths partition the '
        'whole grammar. Per path a three-valued evaluation of the property\'s own definition of "malformed" over the inspected positions must be '
        'definite: rejected (TypeError/ValueError) paths must be malformed whatever the uninspected positions hold, accepted paths well-formed; any '
        'other exception class is a violation. On rejecting paths every rating object reachable from the arguments and model.__dict__ are compared '
        'before/after, and a recording __setattr__ on the model must stay silent. rate and the three predictions, five models.'),
    'bounds': {
        'quick': 'teams: list of 0-3 / tuple / None / dict / str / int; team: list of 0-2 / tuple / rating / None / int / str; player: own rating / '
                 'the rating class of each of the four other models / None / int / float / str / list; ranks, scores: None / list of 0-4 / tuple / int 0 / '
                 'int / str / dict; elements: int / 0 / negative float / bool / an int beyond the float range / str / None / complex / list',
        'thorough': 'teams up to 4, teams of up to 3 players',
    },
    'outside': ['kinds not on the menus (numpy scalars, objects with raising __bool__, subclasses of list)'],
    'stubs': ['none (arguments are proxies; ratings are real objects of the real classes)'],
    'axioms': [],
    'assumptions': ['a falsy ranks/scores argument (None, [], (), 0, "") counts as "not given", as the property states'],
}

PLAYER_MENU_Q = ['own', 'foreign0', 'none', 'int', 'float', 'str', 'list']
PLAYER_MENU_T = ['own', 'foreign0', 'foreign1', 'foreign2', 'foreign3', 'none', 'int', 'float', 'str', 'list']
ELEM_MENU = ['int', 'zero', 'negfloat', 'bool', 'bigint', 'str', 'none', 'complex', 'list']
NUMERIC = ('int', 'zero', 'negfloat', 'bool', 'bigint')
BIGINT = -(10 ** 400)   # a valid int that no float can hold (float(), math.isnan(), math.isfinite() raise OverflowError on it)


def jobs(tier):
    out = []
    for key in H.ALL:
        for op in ('rate', 'predict_win', 'predict_draw', 'predict_rank'):
            out.append({'name': f'{key}-{op}', 'model': key, 'op': op, 'tier': tier, 'budget': 900 if tier == 'quick' else 3000,
                        'cost': 200 if op == 'rate' else 20})
    return out


def _menus(key, tier, registry):
    """builders of the lazy argument trees; every rating created is recorded in `registry`"""
    from sx import kinds
    Model = H.model_class(key)
    others = [H.model_class(k) for k in H.ALL if k != key]
    m_own = Model()
    max_teams = 3 if tier == 'quick' else 4
    max_players = 2 if tier == 'quick' else 3
    pmenu = PLAYER_MENU_T  # all four foreign rating classes in both tiers (a subclass relation between two rating classes shows for one ordered pair only)

    def own():
        r = m_own.rating(25.0 + len(registry), 8.0 - 0.1 * len(registry))
        registry.append(r)
        return r

    def foreign(i):
        r = others[i]().rating(24.0, 7.0)
        registry.append(r)
        return r

    def player(name):
        fac = {'own': own, 'none': lambda: None, 'int': lambda: 21, 'float': lambda: 21.5, 'str': lambda: 'p', 'list': lambda: [own()]}
        for i in range(4):
            fac[f'foreign{i}'] = (lambda i=i: foreign(i))
        return kinds.Lazy(name, [(lab, fac[lab]) for lab in pmenu])

    def team(name):
        menu = [(f'list{L}', (lambda L=L: [player(f'{name}_p{j}') for j in range(L)])) for L in range(max_players + 1)]
        menu += [('tuple', lambda: (own(),)), ('rating', own), ('none', lambda: None), ('int', lambda: 3), ('str', lambda: 'ab')]
        return kinds.Lazy(name, menu)

    def teams():
        menu = [(f'list{L}', (lambda L=L: [team(f't{i}') for i in range(L)])) for L in range(max_teams + 1)]
        menu += [('tuple', lambda: ([own()], [own()])), ('none', lambda: None), ('dict', lambda: {0: [own()], 1: [own()]}),
                 ('str', lambda: 'ab'), ('int', lambda: 2)]
        return kinds.Lazy('teams', menu)

    def elem(name):
        fac = {'int': lambda: 3, 'zero': lambda: 0, 'negfloat': lambda: -2.5, 'bool': lambda: True, 'bigint': lambda: BIGINT, 'str': lambda: 'a', 'none': lambda: None,
               'complex': lambda: 2j, 'list': lambda: [1]}
        return kinds.Lazy(name, [(lab, fac[lab]) for lab in ELEM_MENU])

    def vec(name):
        menu = [('None', lambda: None)]
        menu += [(f'list{L}', (lambda L=L: [elem(f'{name}{i}') for i in range(L)])) for L in range(max_teams + 2)]
        menu += [('tuple', lambda: (1, 2)), ('zero', lambda: 0), ('int', lambda: 21), ('str', lambda: '12'), ('dict', lambda: {0: 1, 1: 2}),
                 ('emptystr', lambda: '')]
        return kinds.Lazy(name, menu)
    return Model, teams, vec


def tri_and(xs):
    xs = list(xs)
    if any(x is False for x in xs):
        return False
    if any(x is None for x in xs):
        return None
    return True


def tri_or(xs):
    xs = list(xs)
    if any(x is True for x in xs):
        return True
    if any(x is None for x in xs):
        return None
    return False


def tri_not(x):
    return None if x is None else (not x)


def lab(obj):
    """label of a lazy object, None if the code never inspected it"""
    return obj._label()


def children(obj):
    """elements of a resolved lazy list (themselves lazy), else None"""
    r = object.__getattribute__(obj, '_rep')
    if r is None:
        return None
    return r[0] if isinstance(r[0], list) else None


def teams_malformed(teams):
    """three-valued: is `teams` not a list of at least two non-empty lists of own ratings?"""
    tl = lab(teams)
    if tl is None:
        return None
    if not tl.startswith('list'):
        return True
    ts = children(teams)
    if len(ts) < 2:
        return True
    res = []
    for t in ts:
        l2 = lab(t)
        if l2 is None:
            res.append(None)
            continue
        if not l2.startswith('list'):
            res.append(True)
            continue
        ps = children(t)
        if len(ps) < 1:
            res.append(True)
            continue
        res.append(tri_or([None if lab(p) is None else lab(p) != 'own' for p in ps]))
    return tri_or(res)


def n_teams(teams):
    tl = lab(teams)
    if tl is None or not tl.startswith('list'):
        return None
    return len(children(teams))


def vec_given(v):
    l = lab(v)
    if l is None:
        return None
    return l not in ('None', 'list0', 'zero', 'emptystr')


def vec_malformed(v, teams):
    """given but not a list of numbers of the same length as teams (three-valued)"""
    g = vec_given(v)
    if g is None:
        return None
    if not g:
        return False
    l = lab(v)
    if not l.startswith('list'):
        return True
    es = children(v)
    nt = n_teams(teams)
    if nt is None:
        return None
    if len(es) != nt:
        return True
    return tri_or([None if lab(e) is None else lab(e) not in NUMERIC for e in es])


def malformed(op, teams, ranks, scores):
    tm = teams_malformed(teams)
    if op != 'rate':
        return tm
    both = tri_and([vec_given(ranks), vec_given(scores)])
    return tri_or([tm, vec_malformed(ranks, teams), vec_malformed(scores, teams), both])


def describe(obj):
    """concrete description of a lazy tree for replay: labels, unresolved positions get a default"""
    from sx import kinds
    if type(obj) is not kinds.Lazy:
        return None
    l = lab(obj)
    ch = children(obj)
    return {'label': l, 'children': [describe(c) for c in ch] if ch is not None else None}


# completion of the positions the code never inspected (label None): the replay tries several, see COMPLETIONS
DEFAULTS = {}
WELLFORMED_COMPLETIONS = [{}, {'elem': 'bool'}, {'elem': 'negfloat'}, {'elem': 'zero'}, {'elem': 'bigint'}]
MALFORMED_COMPLETIONS = [{'elem': 'str'}, {'elem': 'none'}, {'player': 'int'}, {'player': 'foreign0'}, {'player': 'foreign1'}, {'player': 'foreign2'},
                         {'player': 'foreign3'}, {'player': 'none'}, {'team': 'none'}, {'team': 'list0'}, {'team': 'tuple'}]


def build_concrete(key, d, kind, registry):
    """rebuild a concrete argument from a description (replay side, no proxies)"""
    Model = H.model_class(key)
    others = [H.model_class(k) for k in H.ALL if k != key]
    m_own = Model()

    def own():
        r = m_own.rating(25.0 + len(registry), 8.0 - 0.1 * len(registry))
        registry.append(r)
        return r

    def foreign(i):
        r = others[i]().rating(24.0, 7.0)
        registry.append(r)
        return r
    if d is None:
        d = {'label': None, 'children': None}
    l = d['label']
    ch = d['children']
    l = l or DEFAULTS.get(kind)
    if kind == 'player':
        l = l or 'own'
        if l.startswith('foreign'):
            return foreign(int(l[7:]))
        return {'own': own, 'none': lambda: None, 'int': lambda: 21, 'float': lambda: 21.5, 'str': lambda: 'p', 'list': lambda: [own()]}[l]()
    if kind == 'team':
        l = l or 'list1'
        if l.startswith('list'):
            n = int(l[4:])
            ch = ch or [None] * n
            return [build_concrete(key, c, 'player', registry) for c in ch]
        return {'tuple': lambda: (own(),), 'rating': own, 'none': lambda: None, 'int': lambda: 3, 'str': lambda: 'ab'}[l]()
    if kind == 'teams':
        l = l or 'list2'
        if l.startswith('list'):
            n = int(l[4:])
            ch = ch or [None] * n
            return [build_concrete(key, c, 'team', registry) for c in ch]
        return {'tuple': lambda: ([own()], [own()]), 'none': lambda: None, 'dict': lambda: {0: [own()], 1: [own()]}, 'str': lambda: 'ab',
                'int': lambda: 2}[l]()
    if kind == 'elem':
        l = l or 'int'
        return {'int': 3, 'zero': 0, 'negfloat': -2.5, 'bool': True, 'bigint': BIGINT, 'str': 'a', 'none': None, 'complex': 2j, 'list': [1]}[l]
    # vec
    l = l or 'None'
    if l.startswith('list'):
        n = int(l[4:])
        ch = ch or [None] * n
        return [build_concrete(key, c, 'elem', registry) for c in ch]
    return {'None': None, 'tuple': (1, 2), 'zero': 0, 'int': 21, 'str': '12', 'dict': {0: 1, 1: 2}, 'emptystr': ''}[l]


def concrete_malformed(key, op, teams, ranks, scores):
    R = H.rating_class(key)
    tm = not (isinstance(teams, list) and len(teams) >= 2 and all(isinstance(t, list) and len(t) >= 1 and all(type(p) is R for p in t) for t in teams))
    if op != 'rate':
        return tm

    def vm(v):
        if not v:
            return False
        return not (isinstance(v, list) and isinstance(teams, list) and len(v) == len(teams)
                    and all(isinstance(x, (int, float)) for x in v))
    return tm or vm(ranks) or vm(scores) or (bool(ranks) and bool(scores))


def run_job(spec, ctx):
    import z3
    from sx import core
    from harness.c14 import monitored
    core.install()
    key, op, tier = spec['model'], spec['op'], spec['tier']
    core.INPUT_FACTS.clear()

    last = {}

    def run():
        registry = []
        Model, mk_teams, mk_vec = _menus(key, tier, registry)
        Mon, wlog = monitored(Model)
        m = Mon()
        object.__setattr__(m, '_armed', True)
        teams = mk_teams()
        ranks = mk_vec('ranks') if op == 'rate' else None
        scores = mk_vec('scores') if op == 'rate' else None
        last.update(teams=teams, ranks=ranks, scores=scores)
        d0 = {k: v for k, v in m.__dict__.items() if k != '_armed'}
        outcome = None
        try:
            if op == 'rate':
                m.rate(teams, ranks=ranks, scores=scores)
            else:
                getattr(m, op)(teams)
            outcome = 'ok'
        except (TypeError, ValueError) as e:
            outcome = type(e).__name__
        d1 = {k: v for k, v in m.__dict__.items() if k != '_armed'}
        snap = [(r.mu, r.sigma) for r in registry]
        return dict(outcome=outcome, teams=teams, ranks=ranks, scores=scores, registry=registry, snap=snap,
                    dict_same=(d0.keys() == d1.keys() and all(d0[k] is d1[k] for k in d0)), wlog=list(wlog))

    n_ok = n_rej = 0
    for (kind, out), eng in core.iter_paths(run, [], None, opts={'deadline': ctx.deadline}, max_paths=10 ** 7):
        ctx.paths += 1
        if len(ctx.candidates) >= 3:
            break
        if kind == 'exc':
            # an exception class other than TypeError/ValueError escaped
            desc = {'teams': describe(last.get('teams')), 'ranks': describe(last.get('ranks')), 'scores': describe(last.get('scores'))}
            ctx.ob(f'{op}: exception {type(out).__name__} escapes ({out})', 'sat',
                   {'model': key, 'op': op, 'note': f'{type(out).__name__}: {out}', 'desc': desc, 'from_exc': True})
            continue
        if ctx.vacuity['checked'] == 0:
            ctx.vacuity['checked'] += 1
            ctx.vacuity['reach_sat'] += 1
            ctx.vacuity['false_ob_sat'] += 1
        teams, ranks, scores = out['teams'], out['ranks'], out['scores']
        mal = malformed(op, teams, ranks, scores)
        desc = {'teams': describe(teams), 'ranks': describe(ranks), 'scores': describe(scores)}
        probs = []
        if out['outcome'] == 'ok':
            n_ok += 1
            if mal is not False:
                probs.append('accepted although ' + ('malformed' if mal else 'some uninspected position could make it malformed'))
        else:
            n_rej += 1
            if mal is not True:
                probs.append(f'rejected with {out["outcome"]} although ' + ('well-formed' if mal is False else 'well-formed for some completion'))
            # no side effect on rejection
            init = []
            for k, r in enumerate(out['registry']):
                pass
            if not out['dict_same'] or out['wlog']:
                probs.append(f'model attributes touched on a rejected call: {out["wlog"]}')
        # ratings must be untouched on rejection: values at creation are a function of creation order
        if out['outcome'] != 'ok':
            for k, r in enumerate(out['registry']):
                mu0, sg0 = (24.0, 7.0) if r.__class__.__module__ != H.rating_class(key).__module__ else (None, None)
                if mu0 is not None and (r.mu, r.sigma) != (mu0, sg0):
                    probs.append('a foreign rating was modified by a rejected call')
            # own ratings: compare with a recomputation of their construction values
            own = [r for r in out['registry'] if r.__class__ is H.rating_class(key)]
            for r in own:
                idx = out['registry'].index(r)
                if (r.mu, r.sigma) != (25.0 + idx, 8.0 - 0.1 * idx):
                    probs.append('a rating passed in was modified by a rejected call')
                    break
        sample = {'model': key, 'op': op, 'outcome': out['outcome'], 'malformed_by_spec': mal, 'arguments': desc}
        cands = None
        if probs:
            cands = [{'model': key, 'op': op, 'desc': desc, 'note': probs[0]}]
            if mal is None:
                # the verdict depends on positions the code never looked at: one candidate per completion of those positions
                comps = WELLFORMED_COMPLETIONS if out['outcome'] != 'ok' else MALFORMED_COMPLETIONS
                cands = [{'model': key, 'op': op, 'desc': desc, 'note': probs[0], 'defaults': c} for c in comps]
                H.mark_last(cands)
        ctx.ob(f'{op}: outcome {out["outcome"]} vs spec malformed={mal}' + (': ' + probs[0] if probs else ''),
               'sat' if probs else 'unsat', cands,
               sample=sample if (ctx.paths % 97 == 1) else None)
        ctx.add_engine(eng)
    ctx.notes.append(f'{op}: {n_ok} accepting paths, {n_rej} rejecting paths')


def replay(cand):
    from harness.c14 import monitored
    key, op = cand['model'], cand['op']
    if cand.get('desc') is None:
        return {'violated': False, 'detail': 'no concrete arguments recorded for this path: ' + str(cand.get('note')), 'key': f'{key}:{op}:exc'}
    registry = []
    d = cand['desc']
    DEFAULTS.clear()
    DEFAULTS.update(cand.get('defaults') or {})
    teams = build_concrete(key, d['teams'], 'teams', registry)
    ranks = build_concrete(key, d['ranks'], 'vec', registry) if op == 'rate' else None
    scores = build_concrete(key, d['scores'], 'vec', registry) if op == 'rate' else None
    Mon, wlog = monitored(H.model_class(key))
    m = Mon()
    object.__setattr__(m, '_armed', True)
    before = [(r.mu, r.sigma) for r in registry]
    d0 = {k: v for k, v in m.__dict__.items() if k != '_armed'}
    mal = concrete_malformed(key, op, teams, ranks, scores)
    try:
        if op == 'rate':
            m.rate(teams, ranks=ranks, scores=scores)
        else:
            getattr(m, op)(teams)
        outcome = 'ok'
    except (TypeError, ValueError) as e:
        outcome = type(e).__name__
    except Exception as e:  # noqa: BLE001
        outcome = 'other:' + type(e).__name__
    after = [(r.mu, r.sigma) for r in registry]
    d1 = {k: v for k, v in m.__dict__.items() if k != '_armed'}
    probs = []
    if outcome.startswith('other'):
        probs.append(f'exception {outcome[6:]} escapes')
    elif outcome == 'ok' and mal:
        probs.append('malformed call accepted')
    elif outcome != 'ok' and not mal:
        probs.append(f'well-formed call rejected with {outcome}')
    if outcome != 'ok' and (before != after or wlog or d0.keys() != d1.keys() or any(d0[k] is not d1[k] for k in d0)):
        probs.append('rejected call left a side effect (rating or model attribute changed)')

    def short(x):
        s = repr(x)
        return s if len(s) < 200 else s[:200] + '...'
    return {'violated': bool(probs), 'key': f'{key}:{op}:{outcome}:{"malformed" if mal else "wellformed"}:{probs[0] if probs else ""}',
            'detail': f'C13 {H.MODEL_NAMES[key]}.{op}(teams={short(teams)}, ranks={short(ranks)}, scores={short(scores)}): ' + '; '.join(probs)}
